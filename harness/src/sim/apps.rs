//! Applications that drive the real h3 client and server through the *documented call pattern*
//! and record every API call and result at the boundary (call before invoking, return after),
//! plus handle drops. The monitors in props/ read this log; nothing here judges anything.

use super::sched::Spawner;
use super::{lock, Net, SimBidi, SimConn, SimOpener, SimRecv, SimSend, CLIENT, SERVER};
use bytes::{Buf, Bytes};
use h3::error::{Code, ConnectionError, LocalError, StreamError};
use h3::quic::ConnectionErrorIncoming;
use std::collections::BTreeMap;
use std::future::Future;
use std::sync::{Arc, Mutex};

pub type Fields = Vec<(String, Vec<u8>)>;

/// Body buffer type handed to `send_data`: the API is generic over `B: Buf`.
pub trait BodyBuf: Buf + Send + 'static {
    fn make(data: Vec<u8>, salt: u64) -> Self;
    const NAME: &'static str;
}
impl BodyBuf for Bytes {
    fn make(data: Vec<u8>, _salt: u64) -> Self {
        Bytes::from(data)
    }
    const NAME: &'static str = "Bytes";
}

/// Several non-contiguous segments, possibly with empty ones in front and in between.
#[derive(Debug)]
pub struct SegBuf {
    segs: std::collections::VecDeque<Bytes>,
}
impl Buf for SegBuf {
    fn remaining(&self) -> usize {
        self.segs.iter().map(|s| s.len()).sum()
    }
    fn chunk(&self) -> &[u8] {
        // first non-empty segment (Buf contract: chunk() is empty only when remaining() == 0)
        for s in &self.segs {
            if !s.is_empty() {
                return &s[..];
            }
        }
        &[]
    }
    fn advance(&mut self, mut cnt: usize) {
        while cnt > 0 {
            let f = self.segs.front_mut().expect("advance past end");
            if f.is_empty() {
                self.segs.pop_front();
                continue;
            }
            if cnt < f.len() {
                f.advance(cnt);
                return;
            }
            cnt -= f.len();
            self.segs.pop_front();
        }
    }
}
impl BodyBuf for SegBuf {
    fn make(data: Vec<u8>, salt: u64) -> Self {
        let mut rng = crate::util::Rng::new(salt ^ 0x5e6b);
        let mut segs = std::collections::VecDeque::new();
        if rng.bool() {
            segs.push_back(Bytes::new());
        }
        let mut i = 0;
        while i < data.len() {
            let n = 1 + rng.usize((data.len() - i).min(700));
            segs.push_back(Bytes::copy_from_slice(&data[i..i + n]));
            if rng.chance(1, 5) {
                segs.push_back(Bytes::new());
            }
            i += n;
        }
        SegBuf { segs }
    }
    const NAME: &'static str = "SegBuf";
}

// ---------------------------------------------------------------------------------------------
// normalised results

#[derive(Debug, Clone, PartialEq, Eq)]
pub enum ConnErr {
    Local { code: u64, reason: String },
    LocalClosing,
    RemoteApp { code: u64 },
    RemoteTimeout,
    RemoteInternal(String),
    RemoteUndefined(String),
    Timeout,
    Other(String),
}

impl ConnErr {
    pub fn from_h3(e: &ConnectionError) -> ConnErr {
        match e {
            ConnectionError::Local { error, .. } => match error {
                LocalError::Application { code, reason, .. } => ConnErr::Local {
                    code: code.value(),
                    reason: reason.clone(),
                },
                LocalError::Closing { .. } => ConnErr::LocalClosing,
                #[allow(unreachable_patterns)]
                _ => ConnErr::Other(format!("{:?}", error)),
            },
            ConnectionError::Remote(r, ..) => match r {
                ConnectionErrorIncoming::ApplicationClose { error_code } => ConnErr::RemoteApp { code: *error_code },
                ConnectionErrorIncoming::Timeout => ConnErr::RemoteTimeout,
                ConnectionErrorIncoming::InternalError(s) => ConnErr::RemoteInternal(s.clone()),
                ConnectionErrorIncoming::Undefined(e) => ConnErr::RemoteUndefined(e.to_string()),
            },
            ConnectionError::Timeout { .. } => ConnErr::Timeout,
            #[allow(unreachable_patterns)]
            _ => ConnErr::Other(format!("{:?}", e)),
        }
    }
    /// the error code this error carries, if any
    pub fn code(&self) -> Option<u64> {
        match self {
            ConnErr::Local { code, .. } => Some(*code),
            ConnErr::RemoteApp { code } => Some(*code),
            _ => None,
        }
    }
}

#[derive(Debug, Clone, PartialEq, Eq)]
pub enum Err {
    Stream { code: u64, reason: String },
    RemoteTerminate { code: u64 },
    Conn(ConnErr),
    HeaderTooBig { actual: u64, max: u64 },
    RemoteClosing,
    Undefined(String),
    Other(String),
}

impl Err {
    pub fn from_h3(e: &StreamError) -> Err {
        match e {
            StreamError::StreamError { code, reason, .. } => Err::Stream {
                code: code.value(),
                reason: reason.clone(),
            },
            StreamError::RemoteTerminate { code, .. } => Err::RemoteTerminate { code: code.value() },
            StreamError::ConnectionError(c, ..) => Err::Conn(ConnErr::from_h3(c)),
            StreamError::HeaderTooBig { actual_size, max_size, .. } => Err::HeaderTooBig {
                actual: *actual_size,
                max: *max_size,
            },
            StreamError::RemoteClosing { .. } => Err::RemoteClosing,
            StreamError::Undefined(e, ..) => Err::Undefined(e.to_string()),
            #[allow(unreachable_patterns)]
            _ => Err::Other(format!("{:?}", e)),
        }
    }
    pub fn is_conn(&self) -> bool {
        matches!(self, Err::Conn(_))
    }
}

#[derive(Debug, Clone, PartialEq, Eq)]
pub enum Out {
    Ok,
    None,
    Data(Vec<u8>),
    Request {
        method: String,
        uri: String,
        headers: Fields,
        protocol: Option<String>,
        stream_id: u64,
    },
    Response {
        status: u16,
        headers: Fields,
    },
    Trailers(Fields),
    Accepted(u64),
    Opened(u64),
    Err(Err),
    ConnErr(ConnErr),
    /// a handle was dropped (liveness ground truth)
    Dropped,
    /// panicked inside the call (recorded by the task wrapper)
    Note(String),
}

#[derive(Debug, Clone)]
pub struct Ev {
    pub t: u64,
    pub actor: String,
    pub op: &'static str,
    pub out: Out,
}

#[derive(Clone)]
pub struct Probe {
    pub net: Net,
    pub log: Arc<Mutex<Vec<Ev>>>,
    /// actor -> (operation currently in flight, time it was called): open operations of the history
    pub open_ops: Arc<Mutex<BTreeMap<String, (&'static str, u64)>>>,
    /// objects parked until the end of the run (connections that must outlive the exchange)
    pub parked: Arc<Mutex<Vec<Box<dyn std::any::Any>>>>,
    /// completion latch: (units still running, waiter)
    pub latch: Arc<Mutex<(usize, Option<std::task::Waker>)>>,
    /// start gate: (open, waiters) - lets a monitor run a first phase to quiescence (e.g. until the
    /// peer's SETTINGS have been applied) before the application starts its requests
    pub gate: Arc<Mutex<(bool, Vec<std::task::Waker>)>>,
    /// hold gate: an application task whose plan names a send operation in `hold` waits here right
    /// before that call (the stream object exists already) until the monitor opens it
    pub gate2: Arc<Mutex<(bool, Vec<std::task::Waker>)>>,
    /// application think time: (seed, counter). With a non-zero seed the simulated applications
    /// yield to the scheduler (return Pending once) at about every third `yield_point`, i.e.
    /// between two reads or writes of a body - an application that does something else between
    /// `recv_data` calls lets h3's buffers fill and lets network events fall between two calls
    pub yielding: Arc<(std::sync::atomic::AtomicU64, std::sync::atomic::AtomicU64)>,
}

impl Probe {
    pub fn new(net: &Net) -> Self {
        Probe {
            net: net.clone(),
            log: Arc::new(Mutex::new(Vec::new())),
            open_ops: Arc::new(Mutex::new(BTreeMap::new())),
            parked: Arc::new(Mutex::new(Vec::new())),
            latch: Arc::new(Mutex::new((0, None))),
            gate: Arc::new(Mutex::new((false, Vec::new()))),
            gate2: Arc::new(Mutex::new((false, Vec::new()))),
            yielding: Arc::new((std::sync::atomic::AtomicU64::new(lock(net).cfg.think), std::sync::atomic::AtomicU64::new(0))),
        }
    }
    /// turn application think time on (seed != 0) or off (0)
    pub fn set_yield(&self, seed: u64) {
        self.yielding.0.store(seed, std::sync::atomic::Ordering::Relaxed);
    }
    pub async fn yield_point(&self, actor: &str) {
        use std::sync::atomic::Ordering::Relaxed;
        let seed = self.yielding.0.load(Relaxed);
        if seed == 0 {
            return;
        }
        let n = self.yielding.1.fetch_add(1, Relaxed);
        if crate::util::hash64(&(seed, actor, n)) % 3 != 0 {
            return;
        }
        let mut yielded = false;
        std::future::poll_fn(|cx| {
            if yielded {
                std::task::Poll::Ready(())
            } else {
                yielded = true;
                cx.waker().wake_by_ref();
                std::task::Poll::Pending
            }
        })
        .await
    }
    pub fn gate2_open(&self) {
        let mut g = self.gate2.lock().unwrap();
        g.0 = true;
        for w in g.1.drain(..) {
            w.wake();
        }
    }
    pub async fn hold(&self, actor: &str, plan_hold: Option<&'static str>, op: &'static str) {
        if plan_hold != Some(op) {
            return;
        }
        let t = lock(&self.net).time;
        self.open_ops.lock().unwrap().insert(actor.to_string(), ("idle(held by the monitor)", t));
        std::future::poll_fn(|cx| {
            let mut g = self.gate2.lock().unwrap();
            if g.0 {
                std::task::Poll::Ready(())
            } else {
                g.1.push(cx.waker().clone());
                std::task::Poll::Pending
            }
        })
        .await;
        self.open_ops.lock().unwrap().remove(actor);
    }
    pub fn gate_open(&self) {
        let mut g = self.gate.lock().unwrap();
        g.0 = true;
        for w in g.1.drain(..) {
            w.wake();
        }
    }
    pub async fn gate_wait(&self) {
        std::future::poll_fn(|cx| {
            let mut g = self.gate.lock().unwrap();
            if g.0 {
                std::task::Poll::Ready(())
            } else {
                g.1.push(cx.waker().clone());
                std::task::Poll::Pending
            }
        })
        .await
    }
    pub fn latch_add(&self, n: usize) {
        self.latch.lock().unwrap().0 += n;
    }
    pub fn latch_done(&self) {
        let mut l = self.latch.lock().unwrap();
        l.0 = l.0.saturating_sub(1);
        if l.0 == 0 {
            if let Some(w) = l.1.take() {
                w.wake();
            }
        }
    }
    pub async fn latch_wait(&self) {
        std::future::poll_fn(|cx| {
            let mut l = self.latch.lock().unwrap();
            if l.0 == 0 {
                std::task::Poll::Ready(())
            } else {
                l.1 = Some(cx.waker().clone());
                std::task::Poll::Pending
            }
        })
        .await
    }
    pub fn now(&self) -> u64 {
        lock(&self.net).time
    }
    pub fn record(&self, actor: &str, op: &'static str, out: Out) {
        let t = self.now();
        self.log.lock().unwrap().push(Ev {
            t,
            actor: actor.to_string(),
            op,
            out,
        });
    }
    /// Wrap an API call: mark it open before invoking, record the result after it returned.
    pub async fn call<T>(
        &self,
        actor: &str,
        op: &'static str,
        fut: impl Future<Output = T>,
        describe: impl FnOnce(&T) -> Out,
    ) -> T {
        let t = self.now();
        self.open_ops.lock().unwrap().insert(actor.to_string(), (op, t));
        let r = fut.await;
        self.open_ops.lock().unwrap().remove(actor);
        self.record(actor, op, describe(&r));
        r
    }
    pub fn park<T: 'static>(&self, x: T) {
        self.parked.lock().unwrap().push(Box::new(x));
    }
    pub fn events(&self) -> Vec<Ev> {
        self.log.lock().unwrap().clone()
    }
    pub fn open(&self) -> BTreeMap<String, (&'static str, u64)> {
        self.open_ops.lock().unwrap().clone()
    }
    pub fn events_of(&self, actor: &str) -> Vec<Ev> {
        self.log
            .lock()
            .unwrap()
            .iter()
            .filter(|e| e.actor == actor)
            .cloned()
            .collect()
    }
}

fn unit_out<E>(r: &Result<(), E>, f: impl Fn(&E) -> Out) -> Out {
    match r {
        Ok(()) => Out::Ok,
        Err(e) => f(e),
    }
}
fn se(e: &StreamError) -> Out {
    Out::Err(Err::from_h3(e))
}
fn ce(e: &ConnectionError) -> Out {
    Out::ConnErr(ConnErr::from_h3(e))
}

pub fn fields_of(h: &http::HeaderMap) -> Fields {
    h.iter()
        .map(|(n, v)| (n.as_str().to_string(), v.as_bytes().to_vec()))
        .collect()
}

pub fn header_map(f: &Fields) -> http::HeaderMap {
    let mut m = http::HeaderMap::new();
    for (n, v) in f {
        m.append(
            http::header::HeaderName::from_bytes(n.as_bytes()).expect("generator produces valid names"),
            http::HeaderValue::from_bytes(v).expect("generator produces valid values"),
        );
    }
    m
}

// ---------------------------------------------------------------------------------------------
// plans

#[derive(Debug, Clone, Default)]
pub struct Msg {
    pub method: String,
    pub uri: String,
    pub protocol: Option<String>,
    pub status: u16,
    pub headers: Fields,
    /// send_data pieces (may contain empty pieces)
    pub body: Vec<Vec<u8>>,
    pub trailers: Option<Fields>,
}

impl Msg {
    pub fn body_concat(&self) -> Vec<u8> {
        self.body.concat()
    }
    pub fn to_request(&self) -> http::Request<()> {
        let mut b = http::Request::builder()
            .method(http::Method::from_bytes(self.method.as_bytes()).expect("valid method"))
            .uri(self.uri.as_str());
        if let Some(p) = &self.protocol {
            let proto: h3::ext::Protocol = p.parse().ok().expect("valid protocol");
            b = b.extension(proto);
        }
        let mut r = b.body(()).expect("valid request");
        *r.headers_mut() = header_map(&self.headers);
        r
    }
    pub fn to_response(&self) -> http::Response<()> {
        let mut r = http::Response::builder().status(self.status).body(()).expect("valid response");
        *r.headers_mut() = header_map(&self.headers);
        r
    }
}

#[derive(Debug, Clone, Copy, Default)]
pub struct SrvCfg {
    pub max_field_section_size: Option<u64>,
    pub grease: Option<bool>,
    pub webtransport: Option<bool>,
    pub extended_connect: Option<bool>,
    pub datagram: Option<bool>,
    pub max_wt_sessions: Option<u64>,
    /// the order in which the builder methods are called (0 = as listed; what is configured must
    /// not depend on it)
    pub call_order: u8,
}
impl SrvCfg {
    pub fn builder(&self) -> h3::server::Builder {
        let mut b = h3::server::builder();
        let mut calls: [u8; 6] = [0, 1, 2, 3, 4, 5];
        if self.call_order != 0 {
            let mut x = (self.call_order as u32).wrapping_mul(2654435761);
            for i in (1..calls.len()).rev() {
                x = x.wrapping_mul(1664525).wrapping_add(1013904223);
                calls.swap(i, (x >> 16) as usize % (i + 1));
            }
        }
        for c in calls {
            match c {
                0 => {
                    if let Some(v) = self.max_field_section_size {
                        b.max_field_section_size(v);
                    }
                }
                1 => {
                    if let Some(v) = self.grease {
                        b.send_grease(v);
                    }
                }
                2 => {
                    if let Some(v) = self.webtransport {
                        b.enable_webtransport(v);
                    }
                }
                3 => {
                    if let Some(v) = self.extended_connect {
                        b.enable_extended_connect(v);
                    }
                }
                4 => {
                    if let Some(v) = self.datagram {
                        b.enable_datagram(v);
                    }
                }
                _ => {
                    if let Some(v) = self.max_wt_sessions {
                        b.max_webtransport_sessions(v);
                    }
                }
            }
        }
        b
    }
}

#[derive(Debug, Clone, Copy, Default)]
pub struct CliCfg {
    pub max_field_section_size: Option<u64>,
    pub grease: Option<bool>,
    pub extended_connect: Option<bool>,
    pub datagram: Option<bool>,
}
impl CliCfg {
    pub fn builder(&self) -> h3::client::Builder {
        let mut b = h3::client::builder();
        if let Some(v) = self.max_field_section_size {
            b.max_field_section_size(v);
        }
        if let Some(v) = self.grease {
            b.send_grease(v);
        }
        if let Some(v) = self.extended_connect {
            b.enable_extended_connect(v);
        }
        if let Some(v) = self.datagram {
            b.enable_datagram(v);
        }
        b
    }
}

/// how a sender ends its message
#[derive(Debug, Clone, Copy, PartialEq, Eq, Default)]
pub enum EndMode {
    /// finish() (the documented way)
    #[default]
    Finish,
    /// drop the handle without finishing
    Drop,
    /// stop_stream(code): reset the send side
    Reset(u64),
    /// finish() polled once; if it is still pending the application gives up on that call (its
    /// timeout fires: the future is dropped) and calls finish() again
    FinishRetried,
}

#[derive(Debug, Clone)]
pub struct RespPlan {
    pub resp: Msg,
    /// drive the two halves from separate tasks
    pub split: bool,
    pub end: EndMode,
    /// read the request body and trailers (documented); false = respond without reading
    pub read_request: bool,
    /// number of send_data pieces to send before ending (None = all)
    pub stop_after_pieces: Option<usize>,
    /// wait for `Probe::gate2_open` right before this send operation ("send_response" / "send_trailers")
    pub hold: Option<&'static str>,
    /// with `split`: read this many body pieces on the whole stream first and split then (possibly
    /// in the middle of a DATA frame), instead of splitting right after the head
    pub late_split: Option<usize>,
}

impl Default for RespPlan {
    fn default() -> Self {
        RespPlan {
            resp: Msg::default(),
            split: false,
            end: EndMode::Finish,
            read_request: true,
            stop_after_pieces: None,
            hold: None,
            late_split: None,
        }
    }
}

#[derive(Debug, Clone, Default)]
pub struct ShutdownPlan {
    /// call shutdown(grace) right after this many accepts returned a request
    pub after_accepts: usize,
    pub grace: usize,
}

#[derive(Debug, Clone, Default)]
pub struct ServerOpts {
    /// request tasks release one latch unit each (two when split) when they end; the runner
    /// pre-adds them so that the client keeps the connection open until the server is done too
    pub latch: bool,
    pub cfg: SrvCfg,
    pub plans: Vec<RespPlan>,
    pub default_plan: RespPlan,
    pub shutdowns: Vec<ShutdownPlan>,
}

pub type SrvConn<B> = h3::server::Connection<SimConn<B>, B>;
pub type SrvStream<B> = h3::server::RequestStream<SimBidi<B>, B>;
pub type SrvSendHalf<B> = h3::server::RequestStream<SimSend<B>, B>;
pub type SrvRecvHalf<B> = h3::server::RequestStream<SimRecv, B>;
pub type CliConn<B> = h3::client::Connection<SimConn<B>, B>;
pub type CliSend<B> = h3::client::SendRequest<SimOpener<B>, B>;
pub type CliStream<B> = h3::client::RequestStream<SimBidi<B>, B>;
pub type CliSendHalf<B> = h3::client::RequestStream<SimSend<B>, B>;
pub type CliRecvHalf<B> = h3::client::RequestStream<SimRecv, B>;

/// server: accept() in a loop until Ok(None) or Err; one task per request.
pub async fn server_main<B: BodyBuf>(net: Net, opts: ServerOpts, probe: Probe, spawner: Spawner) {
    let actor = "s:conn";
    let built = probe
        .call(actor, "build", opts.cfg.builder().build::<_, B>(SimConn::<B>::new(&net, SERVER)), |r| match r {
            Ok(_) => Out::Ok,
            Err(e) => ce(e),
        })
        .await;
    let mut conn: SrvConn<B> = match built {
        Ok(c) => c,
        Err(_) => return,
    };
    let mut accepted = 0usize;
    loop {
        for s in &opts.shutdowns {
            if s.after_accepts == accepted {
                let r = probe
                    .call(actor, "shutdown", conn.shutdown(s.grace), |r| unit_out(r, ce))
                    .await;
                if r.is_err() {
                    probe.park(conn);
                    return;
                }
            }
        }
        let r = probe
            .call(actor, "accept", conn.accept(), |r| match r {
                Ok(Some(res)) => Out::Accepted(res.frame_stream.id().into_inner()),
                Ok(None) => Out::None,
                Err(e) => ce(e),
            })
            .await;
        match r {
            Ok(Some(resolver)) => {
                let plan = opts.plans.get(accepted).cloned().unwrap_or_else(|| opts.default_plan.clone());
                let sid = resolver.frame_stream.id().into_inner();
                accepted += 1;
                spawner.spawn(
                    format!("s:req@{}", sid),
                    server_request::<B>(resolver, plan, probe.clone(), spawner.clone(), sid, opts.latch),
                );
            }
            Ok(None) | Err(_) => break,
        }
    }
    // keep the connection object alive: dropping it closes the QUIC connection at once
    probe.park(conn);
}

pub async fn server_request<B: BodyBuf>(
    resolver: h3::server::RequestResolver<SimConn<B>, B>,
    plan: RespPlan,
    probe: Probe,
    spawner: Spawner,
    sid: u64,
    latch: bool,
) {
    let actor = format!("s:req@{}", sid);
    let r = probe
        .call(&actor, "resolve_request", resolver.resolve_request(), |r| match r {
            Ok((req, _)) => Out::Request {
                method: req.method().as_str().to_string(),
                uri: req.uri().to_string(),
                headers: fields_of(req.headers()),
                protocol: req.extensions().get::<h3::ext::Protocol>().map(|p| p.as_str().to_string()),
                stream_id: sid,
            },
            Err(e) => se(e),
        })
        .await;
    let stream = match r {
        Ok((_req, s)) => s,
        Err(_) => {
            probe.record(&actor, "handles", Out::Dropped);
            if latch {
                probe.latch_done();
                if plan.split {
                    probe.latch_done();
                }
            }
            return;
        }
    };
    if plan.split {
        let mut stream = stream;
        // late split: a few body pieces are read on the whole stream first
        let mut stage = RecvStage::Start;
        if let (Some(k), true) = (plan.late_split, plan.read_request) {
            match server_recv_part::<B, _>(&mut stream, &actor, &probe, RecvStage::Start, Some(k)).await {
                Ok(st) => stage = st,
                Err(()) => {
                    drop(stream);
                    probe.record(&actor, "handles", Out::Dropped);
                    if latch {
                        probe.latch_done();
                        probe.latch_done();
                    }
                    return;
                }
            }
            probe.record(&actor, "split", Out::Ok);
        }
        let (send, recv) = stream.split();
        let ractor = format!("s:req@{}:recv", sid);
        let p2 = probe.clone();
        let read_request = plan.read_request;
        spawner.spawn(ractor.clone(), async move {
            let mut recv = recv;
            if read_request && stage != RecvStage::Done {
                let from = if stage == RecvStage::Trailers { RecvStage::Trailers } else { RecvStage::Start };
                let _ = server_recv_part::<B, _>(&mut recv, &ractor, &p2, from, None).await;
            }
            drop(recv);
            p2.record(&ractor, "handles", Out::Dropped);
            if latch {
                p2.latch_done();
            }
        });
        let mut send = send;
        let sactor = format!("s:req@{}:send", sid);
        let _ = server_send_half::<B, _>(&mut send, &plan, &sactor, &probe, sid).await;
        drop(send);
        probe.record(&sactor, "handles", Out::Dropped);
    } else {
        let mut stream = stream;
        if !plan.read_request || server_recv_half::<B, _>(&mut stream, &actor, &probe).await.is_ok() {
            let _ = server_send_half::<B, _>(&mut stream, &plan, &actor, &probe, sid).await;
        }
        drop(stream);
        probe.record(&actor, "handles", Out::Dropped);
    }
    if latch {
        probe.latch_done();
    }
}

/// How far the reading of a message got (late split: the whole stream reads a few pieces, the
/// receiving half carries on from `Body`).
#[derive(Clone, Copy, Debug, PartialEq, Eq)]
pub enum RecvStage {
    Start,
    Body,
    /// the body has ended (recv_data returned None), the trailers have not been asked for yet
    Trailers,
    Done,
}

/// `late_split` value meaning: read the whole body on the whole stream, split, then ask the
/// receiving half for the trailers
pub const SPLIT_AFTER_BODY: usize = usize::MAX;

async fn server_recv_half<B: BodyBuf, S: h3::quic::RecvStream>(
    s: &mut h3::server::RequestStream<S, B>,
    actor: &str,
    probe: &Probe,
) -> Result<(), ()> {
    server_recv_part::<B, S>(s, actor, probe, RecvStage::Start, None).await.map(|_| ())
}

async fn server_recv_part<B: BodyBuf, S: h3::quic::RecvStream>(
    s: &mut h3::server::RequestStream<S, B>,
    actor: &str,
    probe: &Probe,
    from: RecvStage,
    max_pieces: Option<usize>,
) -> Result<RecvStage, ()> {
    let mut pieces = 0usize;
    loop {
        if from == RecvStage::Trailers {
            break;
        }
        if max_pieces == Some(pieces) {
            return Ok(RecvStage::Body);
        }
        let r = probe
            .call(actor, "recv_data", s.recv_data(), |r| match r {
                Ok(Some(b)) => {
                    // `impl Buf`: copy out through the Buf interface
                    Out::Data(buf_bytes(b))
                }
                Ok(None) => Out::None,
                Err(e) => se(e),
            })
            .await;
        match r {
            Ok(Some(_)) => {
                pieces += 1;
                probe.yield_point(actor).await;
                continue;
            }
            Ok(None) => break,
            Err(_) => return Err(()),
        }
    }
    if max_pieces == Some(SPLIT_AFTER_BODY) && from != RecvStage::Trailers {
        return Ok(RecvStage::Trailers);
    }
    let r = probe
        .call(actor, "recv_trailers", s.recv_trailers(), |r| match r {
            Ok(Some(h)) => Out::Trailers(fields_of(h)),
            Ok(None) => Out::None,
            Err(e) => se(e),
        })
        .await;
    r.map(|_| RecvStage::Done).map_err(|_| ())
}

/// copy the content of an `impl Buf` reference without consuming the original
fn buf_bytes<T: Buf>(b: &T) -> Vec<u8> {
    // the returned buffers are Bytes-backed single chunks; walk chunks generically anyway
    let mut out = Vec::with_capacity(b.remaining());
    let c = b.chunk();
    out.extend_from_slice(c);
    if c.len() != b.remaining() {
        // multi-chunk: cannot walk without consuming a shared reference; mark by length mismatch
        out.extend(std::iter::repeat(0xEE).take(b.remaining() - c.len()));
    }
    out
}

async fn server_send_half<B: BodyBuf, S: h3::quic::SendStream<B>>(
    s: &mut h3::server::RequestStream<S, B>,
    plan: &RespPlan,
    actor: &str,
    probe: &Probe,
    salt: u64,
) -> Result<(), ()> {
    probe.hold(actor, plan.hold, "send_response").await;
    probe
        .call(actor, "send_response", s.send_response(plan.resp.to_response()), |r| unit_out(r, se))
        .await
        .map_err(|_| ())?;
    for (i, piece) in plan.resp.body.iter().enumerate() {
        if plan.stop_after_pieces == Some(i) {
            break;
        }
        probe
            .call(actor, "send_data", s.send_data(B::make(piece.clone(), salt ^ i as u64)), |r| unit_out(r, se))
            .await
            .map_err(|_| ())?;
        probe.yield_point(actor).await;
    }
    if plan.stop_after_pieces.is_none() {
        if let Some(t) = &plan.resp.trailers {
            probe.hold(actor, plan.hold, "send_trailers").await;
            probe
                .call(actor, "send_trailers", s.send_trailers(header_map(t)), |r| unit_out(r, se))
                .await
                .map_err(|_| ())?;
        }
    }
    match plan.end {
        EndMode::Finish => {
            probe
                .call(actor, "finish", s.finish(), |r| unit_out(r, se))
                .await
                .map_err(|_| ())?;
        }
        EndMode::FinishRetried => {
            let first = {
                let mut fut = Box::pin(s.finish());
                std::future::poll_fn(|cx| std::task::Poll::Ready(std::future::Future::poll(fut.as_mut(), cx))).await
            };
            match first {
                std::task::Poll::Ready(r) => {
                    probe.record(actor, "finish", unit_out(&r, se));
                    r.map_err(|_| ())?;
                }
                std::task::Poll::Pending => {
                    probe.record(actor, "finish (future dropped while pending)", Out::Ok);
                    probe
                        .call(actor, "finish", s.finish(), |r| unit_out(r, se))
                        .await
                        .map_err(|_| ())?;
                }
            }
        }
        EndMode::Drop => {}
        EndMode::Reset(c) => {
            s.stop_stream(Code::from(c));
            probe.record(actor, "stop_stream", Out::Ok);
        }
    }
    Ok(())
}

// ---------------------------------------------------------------------------------------------
// client

#[derive(Debug, Clone)]
pub struct ReqPlan {
    pub req: Msg,
    pub split: bool,
    pub end: EndMode,
    /// read the response (documented); false = drop after sending
    pub read_response: bool,
    pub stop_after_pieces: Option<usize>,
    /// wait for `Probe::gate2_open` right before this send operation ("send_trailers")
    pub hold: Option<&'static str>,
    /// with `split`: send the request and read the response head plus this many body pieces on the
    /// whole stream, split then and read the rest on the receiving half
    pub late_split: Option<usize>,
}

impl Default for ReqPlan {
    fn default() -> Self {
        ReqPlan {
            req: Msg::default(),
            split: false,
            end: EndMode::Finish,
            read_response: true,
            stop_after_pieces: None,
            hold: None,
            late_split: None,
        }
    }
}

#[derive(Debug, Clone, Default)]
pub struct ClientOpts {
    pub cfg: CliCfg,
    pub reqs: Vec<ReqPlan>,
    /// issue the requests one after the other from one task instead of one task each
    pub sequential: bool,
    /// the driver task calls shutdown(n) (GOAWAY) before it starts polling
    pub shutdown_at_start: Option<usize>,
    /// wait for `Probe::gate_open` before issuing the requests
    pub wait_gate: bool,
}

/// client: build, spawn the driver (poll_close), one task per request; the SendRequest handle
/// is dropped when the last request task has finished (which ends the driver with H3_NO_ERROR).
pub async fn client_main<B: BodyBuf>(net: Net, opts: ClientOpts, probe: Probe, spawner: Spawner) {
    let actor = "c:conn";
    let built = probe
        .call(actor, "build", opts.cfg.builder().build::<_, _, B>(SimConn::<B>::new(&net, CLIENT)), |r| match r {
            Ok(_) => Out::Ok,
            Err(e) => ce(e),
        })
        .await;
    let (mut conn, send): (CliConn<B>, CliSend<B>) = match built {
        Ok(x) => x,
        Err(_) => return,
    };
    let p2 = probe.clone();
    let shutdown_at_start = opts.shutdown_at_start;
    spawner.spawn("c:driver", async move {
        if let Some(n) = shutdown_at_start {
            let r = p2.call("c:driver", "shutdown", conn.shutdown(n), |r| unit_out(r, ce)).await;
            if r.is_err() {
                p2.park(conn);
                return;
            }
        }
        let e = p2
            .call("c:driver", "wait_idle", std::future::poll_fn(|cx| conn.poll_close(cx)), |e| ce(e))
            .await;
        let _ = e;
        p2.park(conn);
    });
    let units: usize = opts.reqs.iter().map(|r| if r.split { 2 } else { 1 }).sum();
    probe.latch_add(units);
    if opts.wait_gate {
        let t = probe.now();
        probe.open_ops.lock().unwrap().insert("c:conn".into(), ("idle(waiting for gate)", t));
        probe.gate_wait().await;
        probe.open_ops.lock().unwrap().remove("c:conn");
    }
    if opts.sequential {
        let mut s2 = send.clone();
        for (i, plan) in opts.reqs.iter().enumerate() {
            client_request::<B>(&mut s2, plan.clone(), probe.clone(), spawner.clone(), i).await;
        }
        drop(s2);
    } else {
        for (i, plan) in opts.reqs.iter().enumerate() {
            let mut s2 = send.clone();
            let p = probe.clone();
            let sp = spawner.clone();
            let plan = plan.clone();
            spawner.spawn(format!("c:req#{}", i), async move {
                client_request::<B>(&mut s2, plan, p, sp, i).await;
                drop(s2);
            });
        }
    }
    // the last SendRequest handle goes away only when every request (both halves) is over:
    // dropping it earlier closes the connection under the streams still in use
    {
        let t = probe.now();
        probe.open_ops.lock().unwrap().insert("c:conn".into(), ("idle(waiting for requests)", t));
        probe.latch_wait().await;
        probe.open_ops.lock().unwrap().remove("c:conn");
    }
    drop(send);
    probe.record("c:conn", "send_request_handle", Out::Dropped);
}

pub async fn client_request<B: BodyBuf>(send: &mut CliSend<B>, plan: ReqPlan, probe: Probe, spawner: Spawner, i: usize) {
    let actor = format!("c:req#{}", i);
    let r = probe
        .call(&actor, "send_request", send.send_request(plan.req.to_request()), |r| match r {
            Ok(s) => Out::Opened(s.id().into_inner()),
            Err(e) => se(e),
        })
        .await;
    let stream: CliStream<B> = match r {
        Ok(s) => s,
        Err(_) => {
            // release every unit this request accounts for
            probe.latch_done();
            if plan.split {
                probe.latch_done();
            }
            return;
        }
    };
    if let (true, Some(k)) = (plan.split, plan.late_split) {
        // late split: request sent and the first pieces of the response read on the whole stream
        let mut stream = stream;
        let ractor = format!("c:req#{}:recv", i);
        if client_send_half::<B, _>(&mut stream, &plan, &actor, &probe, i as u64).await.is_ok() && plan.read_response {
            if let Ok(st @ (RecvStage::Body | RecvStage::Trailers)) = client_recv_part::<B, _>(&mut stream, &actor, &probe, RecvStage::Start, Some(k)).await {
                probe.record(&actor, "split", Out::Ok);
                let (send_half, mut recv_half) = stream.split();
                drop(send_half);
                let _ = client_recv_part::<B, _>(&mut recv_half, &ractor, &probe, st, None).await;
                drop(recv_half);
                probe.record(&ractor, "handles", Out::Dropped);
                probe.latch_done();
                probe.latch_done();
                return;
            }
        }
        drop(stream);
        probe.record(&actor, "handles", Out::Dropped);
        probe.latch_done();
        probe.latch_done();
    } else if plan.split {
        let (send_half, recv_half) = stream.split();
        let ractor = format!("c:req#{}:recv", i);
        let p2 = probe.clone();
        let read_response = plan.read_response;
        spawner.spawn(ractor.clone(), async move {
            let mut recv_half = recv_half;
            if read_response {
                let _ = client_recv_half::<B, _>(&mut recv_half, &ractor, &p2).await;
            }
            drop(recv_half);
            p2.record(&ractor, "handles", Out::Dropped);
            p2.latch_done();
        });
        let mut send_half = send_half;
        let sactor = format!("c:req#{}:send", i);
        let _ = client_send_half::<B, _>(&mut send_half, &plan, &sactor, &probe, i as u64).await;
        drop(send_half);
        probe.record(&sactor, "handles", Out::Dropped);
        probe.latch_done();
    } else {
        let mut stream = stream;
        if client_send_half::<B, _>(&mut stream, &plan, &actor, &probe, i as u64).await.is_ok() && plan.read_response {
            let _ = client_recv_half::<B, _>(&mut stream, &actor, &probe).await;
        }
        drop(stream);
        probe.record(&actor, "handles", Out::Dropped);
        probe.latch_done();
    }
}

async fn client_send_half<B: BodyBuf, S: h3::quic::SendStream<B>>(
    s: &mut h3::client::RequestStream<S, B>,
    plan: &ReqPlan,
    actor: &str,
    probe: &Probe,
    salt: u64,
) -> Result<(), ()> {
    for (i, piece) in plan.req.body.iter().enumerate() {
        if plan.stop_after_pieces == Some(i) {
            break;
        }
        probe
            .call(actor, "send_data", s.send_data(B::make(piece.clone(), (salt << 8) ^ i as u64)), |r| unit_out(r, se))
            .await
            .map_err(|_| ())?;
        probe.yield_point(actor).await;
    }
    if plan.stop_after_pieces.is_none() {
        if let Some(t) = &plan.req.trailers {
            probe.hold(actor, plan.hold, "send_trailers").await;
            probe
                .call(actor, "send_trailers", s.send_trailers(header_map(t)), |r| unit_out(r, se))
                .await
                .map_err(|_| ())?;
        }
    }
    match plan.end {
        EndMode::Finish => {
            probe
                .call(actor, "finish", s.finish(), |r| unit_out(r, se))
                .await
                .map_err(|_| ())?;
        }
        EndMode::FinishRetried => {
            let first = {
                let mut fut = Box::pin(s.finish());
                std::future::poll_fn(|cx| std::task::Poll::Ready(std::future::Future::poll(fut.as_mut(), cx))).await
            };
            match first {
                std::task::Poll::Ready(r) => {
                    probe.record(actor, "finish", unit_out(&r, se));
                    r.map_err(|_| ())?;
                }
                std::task::Poll::Pending => {
                    probe.record(actor, "finish (future dropped while pending)", Out::Ok);
                    probe
                        .call(actor, "finish", s.finish(), |r| unit_out(r, se))
                        .await
                        .map_err(|_| ())?;
                }
            }
        }
        EndMode::Drop => {}
        EndMode::Reset(c) => {
            s.stop_stream(Code::from(c));
            probe.record(actor, "stop_stream", Out::Ok);
        }
    }
    Ok(())
}

async fn client_recv_half<B: BodyBuf, S: h3::quic::RecvStream>(
    s: &mut h3::client::RequestStream<S, B>,
    actor: &str,
    probe: &Probe,
) -> Result<(), ()> {
    client_recv_part::<B, S>(s, actor, probe, RecvStage::Start, None).await.map(|_| ())
}

async fn client_recv_part<B: BodyBuf, S: h3::quic::RecvStream>(
    s: &mut h3::client::RequestStream<S, B>,
    actor: &str,
    probe: &Probe,
    from: RecvStage,
    max_pieces: Option<usize>,
) -> Result<RecvStage, ()> {
    if from == RecvStage::Start {
        probe
            .call(actor, "recv_response", s.recv_response(), |r| match r {
                Ok(resp) => Out::Response {
                    status: resp.status().as_u16(),
                    headers: fields_of(resp.headers()),
                },
                Err(e) => se(e),
            })
            .await
            .map_err(|_| ())?;
    }
    let mut pieces = 0usize;
    loop {
        if from == RecvStage::Trailers {
            break;
        }
        if max_pieces == Some(pieces) {
            return Ok(RecvStage::Body);
        }
        let r = probe
            .call(actor, "recv_data", s.recv_data(), |r| match r {
                Ok(Some(b)) => Out::Data(buf_bytes(b)),
                Ok(None) => Out::None,
                Err(e) => se(e),
            })
            .await;
        match r {
            Ok(Some(_)) => {
                pieces += 1;
                probe.yield_point(actor).await;
                continue;
            }
            Ok(None) => break,
            Err(_) => return Err(()),
        }
    }
    if max_pieces == Some(SPLIT_AFTER_BODY) && from != RecvStage::Trailers {
        return Ok(RecvStage::Trailers);
    }
    let r = probe
        .call(actor, "recv_trailers", s.recv_trailers(), |r| match r {
            Ok(Some(h)) => Out::Trailers(fields_of(h)),
            Ok(None) => Out::None,
            Err(e) => se(e),
        })
        .await;
    r.map(|_| RecvStage::Done).map_err(|_| ())
}

/// Used by Code-typed comparisons in monitors.
pub fn code(c: Code) -> u64 {
    c.value()
}
