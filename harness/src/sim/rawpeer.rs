//! Helpers for scenarios in which one side is a raw scripted peer (the harness writes bytes,
//! FINs, RESETs, STOP_SENDINGs and closes; no h3 code runs on that side).

use super::sched::ScriptStep;
use super::{NetInner, CLIENT, SERVER};
use crate::refimpl::frames as rf;
use crate::refimpl::qpack as rq;
use crate::refimpl::varint as rv;

/// Bytes of a well-behaved peer's control stream start: type 0x00 + SETTINGS.
pub fn control_preamble(settings: &[(u64, u64)]) -> Vec<u8> {
    let mut v = vec![0x00];
    v.extend(rf::settings_frame(settings));
    v
}

/// Open the raw side's control stream and write its preamble (at set-up time).
pub fn open_control(n: &mut NetInner, raw_side: usize, settings: &[(u64, u64)]) -> u64 {
    let id = n.raw_open(raw_side, false);
    let p = control_preamble(settings);
    n.raw_write(raw_side, id, &p);
    id
}

pub fn mark_raw(n: &mut NetInner, raw_side: usize) {
    n.sides[raw_side].is_raw = true;
}

/// A minimal valid request field section (reference-encoded).
pub fn simple_request_headers() -> Vec<u8> {
    let f: Vec<rq::Field> = vec![
        (b":method".to_vec(), b"GET".to_vec()),
        (b":scheme".to_vec(), b"https".to_vec()),
        (b":authority".to_vec(), b"example.com".to_vec()),
        (b":path".to_vec(), b"/".to_vec()),
    ];
    rq::encode_section(&f, &rq::EncOpts::default())
}

pub fn simple_response_headers(status: u16) -> Vec<u8> {
    let f: Vec<rq::Field> = vec![(b":status".to_vec(), status.to_string().into_bytes())];
    rq::encode_section(&f, &rq::EncOpts::default())
}

pub fn trailer_section(fields: &[(&str, &str)]) -> Vec<u8> {
    let f: Vec<rq::Field> = fields.iter().map(|(n, v)| (n.as_bytes().to_vec(), v.as_bytes().to_vec())).collect();
    rq::encode_section(&f, &rq::EncOpts::default())
}

pub fn headers_frame(section: &[u8]) -> Vec<u8> {
    rf::frame(rf::T_HEADERS, section)
}
pub fn data_frame(payload: &[u8]) -> Vec<u8> {
    rf::frame(rf::T_DATA, payload)
}
pub fn goaway_frame(id: u64) -> Vec<u8> {
    rf::frame(rf::T_GOAWAY, &rv::encode(id).unwrap())
}

// ---------------------------------------------------------------------------------------------
// script step constructors

pub fn step_write(side: usize, id: u64, data: Vec<u8>) -> ScriptStep {
    ScriptStep {
        label: format!("write {} B on {}", data.len(), id),
        ready: Box::new(move |n| n.streams.contains_key(&id)),
        run: Box::new(move |n, _| n.raw_write(side, id, &data)),
    }
}
pub fn step_fin(side: usize, id: u64) -> ScriptStep {
    ScriptStep {
        label: format!("fin {}", id),
        ready: Box::new(move |n| n.streams.contains_key(&id)),
        run: Box::new(move |n, _| n.raw_fin(side, id)),
    }
}
pub fn step_reset(side: usize, id: u64, code: u64) -> ScriptStep {
    ScriptStep {
        label: format!("reset {} {:#x}", id, code),
        ready: Box::new(move |n| n.streams.contains_key(&id)),
        run: Box::new(move |n, _| n.raw_reset(side, id, code)),
    }
}
pub fn step_stop(side: usize, id: u64, code: u64) -> ScriptStep {
    ScriptStep {
        label: format!("stop_sending {} {:#x}", id, code),
        ready: Box::new(move |n| n.streams.contains_key(&id)),
        run: Box::new(move |n, _| n.raw_stop(side, id, code)),
    }
}
pub fn step_close(side: usize, code: u64) -> ScriptStep {
    ScriptStep {
        label: format!("close {:#x}", code),
        ready: Box::new(|_| true),
        run: Box::new(move |n, _| n.close(side, code, b"raw peer close")),
    }
}
/// open a stream of the raw side with an explicit id (out-of-order / large ids)
pub fn step_open_id(id: u64) -> ScriptStep {
    ScriptStep {
        label: format!("open {}", id),
        ready: Box::new(|_| true),
        run: Box::new(move |n, _| n.open_with_id(id)),
    }
}
pub fn step_custom(label: &str, ready: impl Fn(&NetInner) -> bool + 'static, run: impl FnOnce(&mut NetInner, &mut crate::util::Rng) + 'static) -> ScriptStep {
    ScriptStep {
        label: label.to_string(),
        ready: Box::new(ready),
        run: Box::new(run),
    }
}

pub fn other(side: usize) -> usize {
    if side == CLIENT {
        SERVER
    } else {
        CLIENT
    }
}
