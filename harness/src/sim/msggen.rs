//! Generator of well-formed HTTP messages (what a caller can hand to h3 and what RFC 9114
//! allows on the wire), shared by C01, C07, C08, C10, C14.

use super::apps::{Fields, Msg};
use crate::refimpl::static_table::STATIC_TABLE;
use crate::util::Rng;

const METHODS: [&str; 11] = [
    "GET", "POST", "PUT", "DELETE", "HEAD", "OPTIONS", "PATCH", "PROPFIND", "M-SEARCH", "X", "QUERY",
];
const SCHEMES: [&str; 5] = ["https", "http", "ftp", "custom+x.y", "wss"];
const HOSTS: [&str; 7] = [
    "example.com",
    "a",
    "localhost",
    "sub.domain.example.org",
    "127.0.0.1",
    "[::1]",
    "xn--nxasmq6b.test",
];
const CUSTOM_NAMES: [&str; 10] = [
    "x-custom",
    "x-a",
    "x-request-id",
    "my-header_with.odd~chars",
    "x-0",
    "te",
    "priority",
    "x-very-long-header-name-0123456789-abcdefghijklmnopqrstuvwxyz-0123456789",
    "x-dup",
    "x-dup2",
];
const PATH_CHARS: &[u8] = b"abcdefghijklmnopqrstuvwxyzABCDEFGHIJKLMNOPQRSTUVWXYZ0123456789-._~!$&'()*+,;=:@%/";
const QUERY_CHARS: &[u8] = b"abcdefghijklmnopqrstuvwxyz0123456789-._~!$&'()*+,;=:@/?%";

pub fn gen_authority(rng: &mut Rng) -> String {
    let h = *rng.pick(&HOSTS);
    match rng.below(3) {
        0 => h.to_string(),
        1 => format!("{}:{}", h, rng.range(1, 65535)),
        _ => format!("{}:443", h),
    }
}

fn gen_path(rng: &mut Rng) -> String {
    let mut p = String::from("/");
    let n = match rng.below(5) {
        0 => 0,
        1 => rng.usize(8),
        2 => rng.usize(40),
        3 => 200 + rng.usize(300),
        _ => rng.usize(20),
    };
    for _ in 0..n {
        let c = PATH_CHARS[rng.usize(PATH_CHARS.len())];
        if c == b'%' {
            p.push_str("%2F");
        } else {
            p.push(c as char);
        }
    }
    if rng.chance(1, 3) {
        p.push('?');
        let q = rng.usize(60);
        for _ in 0..q {
            let c = QUERY_CHARS[rng.usize(QUERY_CHARS.len())];
            if c == b'%' {
                p.push_str("%20");
            } else {
                p.push(c as char);
            }
        }
    }
    p
}

pub fn gen_value(rng: &mut Rng) -> Vec<u8> {
    let n = match rng.below(8) {
        0 => 0,
        1 => 1,
        2 => 280 + rng.usize(21),
        3 => 126 + rng.usize(4),
        _ => rng.usize(40),
    };
    let style = rng.below(4);
    let mut v: Vec<u8> = (0..n)
        .map(|_| match style {
            0 => b"abcdefghijklmnopqrstuvwxyz0123456789-/:.=;"[rng.usize(42)],
            1 => 0x21 + rng.below(0x7e - 0x21 + 1) as u8, // visible ASCII
            2 => {
                // visible ASCII with SP / HTAB inside, obs-text
                match rng.below(6) {
                    0 => b' ',
                    1 => b'\t',
                    2 => 0x80 + rng.below(0x80) as u8,
                    _ => 0x21 + rng.below(0x5e) as u8,
                }
            }
            _ => 0x80 + rng.below(0x80) as u8, // obs-text only
        })
        .collect();
    // keep first/last non-whitespace so that no layer may legitimately trim
    if let Some(f) = v.first_mut() {
        if *f == b' ' || *f == b'\t' {
            *f = b'x';
        }
    }
    if let Some(l) = v.last_mut() {
        if *l == b' ' || *l == b'\t' {
            *l = b'x';
        }
    }
    v
}

/// regular header fields: static-table names (hitting / missing name+value entries), custom
/// names, repeated names.
pub fn gen_fields(rng: &mut Rng, max: usize, avoid: &[&str]) -> Fields {
    let n = rng.usize(max + 1);
    let mut f: Fields = Vec::new();
    for _ in 0..n {
        let (name, value): (String, Vec<u8>) = match rng.below(5) {
            0 => {
                // exact static entry
                let (n, v) = STATIC_TABLE[rng.usize(99)];
                (n.to_string(), v.as_bytes().to_vec())
            }
            1 => {
                let (n, _) = STATIC_TABLE[rng.usize(99)];
                (n.to_string(), gen_value(rng))
            }
            2 => {
                // repeat an earlier name (duplicates, order matters per name)
                if let Some((n, _)) = f.get(rng.usize(f.len().max(1))).cloned() {
                    (n, gen_value(rng))
                } else {
                    ("x-dup".to_string(), gen_value(rng))
                }
            }
            _ => (CUSTOM_NAMES[rng.usize(CUSTOM_NAMES.len())].to_string(), gen_value(rng)),
        };
        if name.starts_with(':') || name == "host" || avoid.contains(&name.as_str()) {
            continue;
        }
        f.push((name, value));
    }
    f
}

/// 0..=max_total bytes cut into 0..=40 pieces; `allow_empty` lets zero-length pieces appear.
pub fn gen_body(rng: &mut Rng, max_total: usize, allow_empty: bool) -> Vec<Vec<u8>> {
    let total = match rng.below(8) {
        0 => 0,
        1 => 1 + rng.usize(16),
        2 => max_total.min(32 * 1024 + rng.usize(32 * 1024 + 1)),
        3 => rng.usize(max_total.min(5000) + 1),
        4 => *rng.pick(&[63usize, 64, 65, 16383, 16384, 16385]).min(&max_total), // varint length-form boundaries
        _ => rng.usize(max_total.min(600) + 1),
    };
    let data: Vec<u8> = {
        // cheap but position-dependent content so that reordering/duplication is visible
        let k = rng.next();
        (0..total)
            .map(|i| ((i as u64).wrapping_mul(0x9e37).wrapping_add(k) >> 3) as u8)
            .collect()
    };
    if total == 0 {
        return if allow_empty && rng.chance(1, 3) {
            vec![Vec::new(); 1 + rng.usize(2)]
        } else {
            Vec::new()
        };
    }
    let pieces = 1 + rng.usize(40.min(total));
    let mut cuts: Vec<usize> = (0..pieces - 1).map(|_| rng.usize(total + 1)).collect();
    cuts.sort_unstable();
    let mut out = Vec::new();
    let mut prev = 0;
    for c in cuts.into_iter().chain(std::iter::once(total)) {
        if c == prev && !allow_empty {
            continue;
        }
        out.push(data[prev..c].to_vec());
        prev = c;
    }
    if allow_empty && rng.chance(1, 4) {
        let at = rng.usize(out.len() + 1);
        out.insert(at, Vec::new());
    }
    out
}

#[derive(Debug, Clone, Copy)]
pub struct GenOpts {
    pub max_body: usize,
    pub allow_empty_pieces: bool,
    pub allow_connect: bool,
    pub max_fields: usize,
}

impl Default for GenOpts {
    fn default() -> Self {
        GenOpts {
            max_body: 64 * 1024,
            allow_empty_pieces: true,
            allow_connect: true,
            max_fields: 12,
        }
    }
}

pub fn gen_request(rng: &mut Rng, o: &GenOpts) -> Msg {
    let connect = o.allow_connect && rng.chance(1, 12);
    let authority = gen_authority(rng);
    let mut m = Msg::default();
    if connect {
        m.method = "CONNECT".into();
        if rng.chance(1, 2) {
            // extended CONNECT: scheme + path + :protocol
            m.protocol = Some(rng.pick(&["webtransport", "connect-udp", "connect-ip", "websocket"]).to_string());
            m.uri = format!("https://{}{}", authority, gen_path(rng));
        } else {
            // authority-form
            m.uri = authority.clone();
        }
    } else {
        m.method = rng.pick(&METHODS).to_string();
        let scheme = *rng.pick(&SCHEMES);
        m.uri = format!("{}://{}{}", scheme, authority, gen_path(rng));
    }
    m.headers = gen_fields(rng, o.max_fields, &[]);
    if rng.chance(1, 6) {
        // Host equal to the authority is allowed
        let at = rng.usize(m.headers.len() + 1);
        m.headers.insert(at, ("host".into(), authority.as_bytes().to_vec()));
    }
    if connect && m.protocol.is_none() {
        // a tunnel has no message body in the HTTP sense, but DATA frames carry the tunnel bytes
        m.body = gen_body(rng, o.max_body.min(2000), o.allow_empty_pieces);
        m.trailers = None;
    } else {
        m.body = gen_body(rng, o.max_body, o.allow_empty_pieces);
        m.trailers = if rng.chance(1, 3) {
            Some(gen_fields(rng, 4, &[]))
        } else {
            None
        };
    }
    m
}

pub fn gen_response(rng: &mut Rng, o: &GenOpts) -> Msg {
    let mut m = Msg::default();
    m.status = match rng.below(4) {
        0 => 200,
        1 => *rng.pick(&[204u16, 206, 301, 304, 400, 404, 418, 500, 503, 599]),
        _ => rng.range(200, 599) as u16,
    };
    m.headers = gen_fields(rng, o.max_fields, &[]);
    m.body = gen_body(rng, o.max_body, o.allow_empty_pieces);
    m.trailers = if rng.chance(1, 3) {
        Some(gen_fields(rng, 4, &[]))
    } else {
        None
    };
    m
}

/// Per-name ordered value lists (what "same field values in the same per-name order" means).
pub fn per_name(f: &Fields) -> std::collections::BTreeMap<String, Vec<Vec<u8>>> {
    let mut m: std::collections::BTreeMap<String, Vec<Vec<u8>>> = Default::default();
    for (n, v) in f {
        m.entry(n.clone()).or_default().push(v.clone());
    }
    m
}
