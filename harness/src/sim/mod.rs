//! simquic — a simulated QUIC transport implementing `h3::quic::*` over an in-memory network,
//! and `sched`, a deterministic single-threaded executor. Every degree of freedom of a QUIC
//! stack (chunk boundaries, partial-write acceptance, stream credit, arrival order, task order)
//! is an explicit PRNG-driven action, so a run is a pure function of (case, seed).
//!
//! Transport contract honoured (see DESIGN.md §1): chunks are never empty; bytes of a stream
//! arrive in order, exactly once; FIN is reported by `poll_data -> None` after the last chunk;
//! after RESET undelivered bytes are discarded; after a connection close every pending and later
//! call fails with a connection error; first close wins; spurious wake-ups are allowed; a second
//! `send_data` before `poll_ready` completed is refused.
//!
//! Off by default: `NetInner::stage_conn_error` stages, for ONE stream and ONE local side, a
//! connection-level error that the transport reports on that stream's operations only (a fault an
//! adapter raises on one stream, or a connection loss that a stream observes before anybody else):
//! the connection is not closed, no waker is touched, every other transport call goes on as before.

pub mod apps;
pub mod msggen;
pub mod rawpeer;
pub mod sched;
pub mod wiremsg;

use bytes::{Buf, Bytes};
use h3::quic::{self, ConnectionErrorIncoming, StreamErrorIncoming, StreamId, WriteBuf};
use std::collections::{BTreeMap, VecDeque};
use std::convert::TryFrom;
use std::marker::PhantomData;
use std::sync::{Arc, Mutex, MutexGuard};
use std::task::{Context, Poll, Waker};

use crate::util::Rng;

pub const CLIENT: usize = 0;
pub const SERVER: usize = 1;

pub fn side_name(s: usize) -> &'static str {
    if s == CLIENT {
        "client"
    } else {
        "server"
    }
}

/// stream id -> (initiator side, is_bidi)
pub fn id_kind(id: u64) -> (usize, bool) {
    ((id & 1) as usize, id & 2 == 0)
}

pub fn make_id(side: usize, bidi: bool, index: u64) -> u64 {
    (index << 2) | (if bidi { 0 } else { 2 }) | side as u64
}

#[derive(Debug, Default)]
pub struct Pipe {
    /// every byte accepted from the sender, in order
    pub sent: Vec<u8>,
    /// (time, end offset) of each acceptance by the transport
    pub write_log: Vec<(u64, usize)>,
    /// number of `poll_ready` calls that returned Pending with bytes left (back-pressure events)
    pub partial_writes: u64,
    /// bytes handed to the receiver's readable queue
    pub delivered: usize,
    /// end offsets of the chunks delivered
    pub cut_log: Vec<usize>,
    pub chunks: VecDeque<Bytes>,
    /// bytes returned by poll_data
    pub read: usize,
    pub fin_sent: bool,
    /// FIN came from dropping the send half (Quinn finishes implicitly), not from poll_finish
    pub fin_implicit: bool,
    pub fin_time: u64,
    pub fin_delivered: bool,
    pub fin_read: bool,
    pub reset_sent: Option<u64>,
    pub reset_delivered: bool,
    /// data bytes that were discarded at the receiver because of a RESET
    pub discarded_by_reset: usize,
    pub stop_sent: Option<u64>,
    pub stop_implicit: bool,
    pub stop_delivered: bool,
    pub recv_waker: Option<Waker>,
    pub send_waker: Option<Waker>,
    /// bytes the sender may push right now (back-pressure mode)
    pub budget: usize,
    pub sender_blocked: bool,
    pub sender_dropped: bool,
    pub receiver_dropped: bool,
    /// the receiver observed the error/end: (what, time)
    pub recv_end_seen: Option<&'static str>,
    /// reads issued after the reset had been reported once (answered "no more data", as Quinn does)
    pub reset_read_again: u64,
    /// writes attempted after FIN/RESET or other contract breaches by the *user* of the transport
    pub misuse: Vec<String>,
    /// staged by a script: the RECEIVER's `poll_data` calls on this pipe report this connection error
    pub inject_recv: Option<Injected>,
    /// staged by a script: the SENDER's `send_data` / `poll_ready` / `poll_send` calls on
    /// this pipe report this connection error
    pub inject_send: Option<Injected>,
}

/// which half of a stream (seen from the side the error is staged for) reports the staged error
#[derive(Clone, Copy, Debug, PartialEq, Eq, Hash)]
pub enum InjectOn {
    /// `RecvStream::poll_data`
    Recv,
    /// `SendStream::send_data` / `poll_ready`, `SendStreamUnframed::poll_send` (`poll_finish` never fails here)
    Send,
}

/// called by the transport on the calling thread, with no lock held, right before the FIRST report
/// of a staged error (a monitor can make this a scheduling point of its own)
#[derive(Clone)]
pub struct InjectHook(pub Arc<dyn Fn() + Send + Sync>);

impl std::fmt::Debug for InjectHook {
    fn fmt(&self, f: &mut std::fmt::Formatter<'_>) -> std::fmt::Result {
        f.write_str("InjectHook")
    }
}

/// A connection-level error the transport reports on the operations of one stream half only. It
/// stays (every later call on that half reports it again); the simulated connection stays open,
/// nothing is woken, no other pending or later transport operation is affected.
#[derive(Debug)]
pub struct Injected {
    pub error: ConnectionErrorIncoming,
    /// how many calls have reported it
    pub reports: u64,
    pub before_first_report: Option<InjectHook>,
}

impl Injected {
    /// Bookkeeping of one report: the error to return and, the first time, the hook to call after
    /// the lock has been released.
    fn report(&mut self) -> (ConnectionErrorIncoming, Option<InjectHook>) {
        self.reports += 1;
        let hook = if self.reports == 1 { self.before_first_report.clone() } else { None };
        (self.error.clone(), hook)
    }
}

fn inject_result(r: (ConnectionErrorIncoming, Option<InjectHook>)) -> StreamErrorIncoming {
    if let Some(h) = r.1 {
        (h.0)();
    }
    conn_err(r.0)
}

#[derive(Debug)]
pub struct Stream {
    pub id: u64,
    /// index = sending side; `None` when that direction does not exist (uni streams)
    pub pipes: [Option<Pipe>; 2],
    /// visible to the non-initiator's accept queue
    pub surfaced: bool,
    pub accepted: bool,
    pub opened_at: u64,
    pub accepted_at: Option<u64>,
}

impl Stream {
    pub fn pipe(&self, sender: usize) -> &Pipe {
        self.pipes[sender].as_ref().expect("pipe direction exists")
    }
    pub fn pipe_mut(&mut self, sender: usize) -> &mut Pipe {
        self.pipes[sender].as_mut().expect("pipe direction exists")
    }
}

#[derive(Debug, Clone)]
pub struct CloseInfo {
    pub by: usize,
    pub code: u64,
    pub reason: Vec<u8>,
    pub time: u64,
}

#[derive(Debug)]
pub struct SideState {
    /// raw scripted peer: no h3 code runs on this side; its receive directions need no delivery
    pub is_raw: bool,
    pub next_bidi: u64,
    pub next_uni: u64,
    /// how many more streams this side may open
    pub bidi_credit: u64,
    pub uni_credit: u64,
    pub open_blocked_bidi: bool,
    pub open_blocked_uni: bool,
    pub open_wakers: Vec<Waker>,
    pub accept_q_bidi: VecDeque<u64>,
    pub accept_q_uni: VecDeque<u64>,
    pub accept_wakers: Vec<Waker>,
    /// the peer's close has been delivered to this side
    pub close_seen: bool,
    pub timed_out: bool,
    pub dgram_q: VecDeque<Bytes>,
    pub dgram_wakers: Vec<Waker>,
    pub credit_grants_left: u64,
}

impl SideState {
    fn new() -> Self {
        SideState {
            is_raw: false,
            next_bidi: 0,
            next_uni: 0,
            bidi_credit: u64::MAX,
            uni_credit: u64::MAX,
            open_blocked_bidi: false,
            open_blocked_uni: false,
            open_wakers: Vec::new(),
            accept_q_bidi: VecDeque::new(),
            accept_q_uni: VecDeque::new(),
            accept_wakers: Vec::new(),
            close_seen: false,
            timed_out: false,
            dgram_q: VecDeque::new(),
            dgram_wakers: Vec::new(),
            credit_grants_left: u64::MAX,
        }
    }
}

#[derive(Debug, Clone)]
pub struct NetCfg {
    /// 0: all available bytes per chunk, 1: single bytes, 2: 1..3 bytes, 3: mixed
    pub chunk_style: u8,
    /// writes are accepted only up to a PRNG-granted budget
    pub backpressure: bool,
    pub max_budget_grant: usize,
    /// surfacing stream N also surfaces all lower-numbered streams of its kind (Quinn behaviour)
    pub ordered_accept: bool,
    /// never deliver anything automatically on these pipes (stream id, sender) - stalled reader/writer
    pub stall_budget: Vec<(u64, usize)>,
    /// data of these pipes (stream id, sender) is only delivered by explicit `deliver_bytes` calls of
    /// a script (exact chunk boundaries); FIN/RESET still flow by themselves
    pub manual_pipes: Vec<(u64, usize)>,
    /// application think time (see `Probe::yield_point`): non-zero = the simulated applications
    /// yield to the scheduler between body reads/writes, decided from this seed
    pub think: u64,
    /// what `poll_data` hands to h3 is a rope of several non-contiguous segments (the trait only
    /// promises a `Buf`; Quinn happens to return one contiguous `Bytes`)
    pub segmented_recv: bool,
}

impl Default for NetCfg {
    fn default() -> Self {
        NetCfg {
            chunk_style: 0,
            backpressure: false,
            max_budget_grant: 64,
            ordered_accept: true,
            stall_budget: Vec::new(),
            manual_pipes: Vec::new(),
            think: 0,
            segmented_recv: false,
        }
    }
}

impl NetCfg {
    pub fn random(rng: &mut Rng) -> Self {
        // under Miri a scheduler step costs milliseconds: no 1-byte chunks or 1-byte budgets there
        // (the interpreter is after undefined behaviour on the code paths, not after schedules)
        let chunk_style = rng.below(4) as u8;
        let grant = *rng.pick(&[1usize, 2, 3, 7, 16, 64, 1000, 100_000]);
        let (chunk_style, grant) = if cfg!(miri) { (if chunk_style == 1 || chunk_style == 2 { 3 } else { chunk_style }, grant.max(64)) } else { (chunk_style, grant) };
        NetCfg {
            chunk_style,
            backpressure: rng.bool(),
            max_budget_grant: grant,
            ordered_accept: true,
            stall_budget: Vec::new(),
            manual_pipes: Vec::new(),
            think: if rng.bool() { rng.next() | 1 } else { 0 },
            segmented_recv: rng.chance(1, 3),
        }
    }
}

pub struct NetInner {
    pub sides: [SideState; 2],
    pub streams: BTreeMap<u64, Stream>,
    pub closed: Option<CloseInfo>,
    pub close_calls: Vec<CloseInfo>,
    pub close_delivered: bool,
    pub time: u64,
    pub cfg: NetCfg,
    pub dgram_inflight: [VecDeque<Bytes>; 2],
    pub dgram_sent: [Vec<Vec<u8>>; 2],
    /// counters the monitors report as coverage
    pub stats: BTreeMap<&'static str, u64>,
}

pub type Net = Arc<Mutex<NetInner>>;

pub fn lock(net: &Net) -> MutexGuard<'_, NetInner> {
    net.lock().unwrap_or_else(|e| e.into_inner())
}

// ---------------------------------------------------------------------------------------------
// spin detector: a call that busy-loops inside one `poll` never returns to the scheduler, so the
// quiescence oracle cannot see it. Every poll-style transport call ticks a per-thread counter that
// the scheduler resets before each task poll (and the runner before each case); past the limit
// the transport panics out of the loop and leaves a note the runner turns into a violation.

pub const SPIN_LIMIT: u64 = 3_000_000;
/// bytes one side may write on one stream before the transport calls it a runaway writer
pub const SENT_LIMIT: usize = 48 << 20;

thread_local! {
    static SPIN_OPS: std::cell::Cell<u64> = const { std::cell::Cell::new(0) };
    static SPIN_HIT: std::cell::RefCell<Option<String>> = const { std::cell::RefCell::new(None) };
}

pub fn spin_reset() {
    SPIN_OPS.with(|c| c.set(0));
}

pub fn spin_take() -> Option<String> {
    SPIN_HIT.with(|h| h.borrow_mut().take())
}

fn spin_tick(op: &'static str, side: usize, id: Option<u64>) {
    let n = SPIN_OPS.with(|c| {
        c.set(c.get() + 1);
        c.get()
    });
    if n > SPIN_LIMIT {
        spin_reset();
        let who = if side == SERVER { "server" } else { "client" };
        let d = format!("{} on the {} side{}", op, who, id.map(|i| format!(" (stream {})", i)).unwrap_or_default());
        SPIN_HIT.with(|h| {
            let mut h = h.borrow_mut();
            if h.is_none() {
                *h = Some(d.clone());
            }
        });
        panic!("SIM-SPIN: more than {} transport calls without returning to the executor; last: {}", SPIN_LIMIT, d);
    }
}

#[derive(Debug, Clone, Copy, PartialEq, Eq, Hash)]
pub enum NetAction {
    Deliver { id: u64, sender: usize },
    DeliverFin { id: u64, sender: usize },
    DeliverReset { id: u64, sender: usize },
    DeliverStop { id: u64, sender: usize },
    GrantBudget { id: u64, sender: usize },
    GrantCredit { side: usize, bidi: bool },
    DeliverClose,
    DeliverDatagram { to: usize },
}

fn wake(w: &mut Option<Waker>) {
    if let Some(w) = w.take() {
        w.wake();
    }
}
fn wake_all(ws: &mut Vec<Waker>) {
    for w in ws.drain(..) {
        w.wake();
    }
}

impl NetInner {
    pub fn new(cfg: NetCfg) -> Self {
        NetInner {
            sides: [SideState::new(), SideState::new()],
            streams: BTreeMap::new(),
            closed: None,
            close_calls: Vec::new(),
            close_delivered: false,
            time: 0,
            cfg,
            dgram_inflight: [VecDeque::new(), VecDeque::new()],
            dgram_sent: [Vec::new(), Vec::new()],
            stats: BTreeMap::new(),
        }
    }

    pub fn stat(&mut self, k: &'static str) {
        *self.stats.entry(k).or_insert(0) += 1;
    }

    fn new_stream(&mut self, id: u64) {
        let (init, bidi) = id_kind(id);
        let mut pipes = [None, None];
        pipes[init] = Some(Pipe::default());
        if bidi {
            pipes[1 - init] = Some(Pipe::default());
        }
        let t = self.time;
        self.streams.insert(
            id,
            Stream {
                id,
                pipes,
                surfaced: false,
                accepted: false,
                opened_at: t,
                accepted_at: None,
            },
        );
    }

    /// Open the next stream of a kind for `side` (no credit check; callers check).
    pub fn open_next(&mut self, side: usize, bidi: bool) -> u64 {
        let idx = if bidi {
            let i = self.sides[side].next_bidi;
            self.sides[side].next_bidi += 1;
            i
        } else {
            let i = self.sides[side].next_uni;
            self.sides[side].next_uni += 1;
            i
        };
        let id = make_id(side, bidi, idx);
        self.new_stream(id);
        id
    }

    /// Raw peers may open any id of their own kinds (out of order, large).
    pub fn open_with_id(&mut self, id: u64) {
        if !self.streams.contains_key(&id) {
            self.new_stream(id);
            let (side, bidi) = id_kind(id);
            let idx = id >> 2;
            if bidi {
                self.sides[side].next_bidi = self.sides[side].next_bidi.max(idx + 1);
            } else {
                self.sides[side].next_uni = self.sides[side].next_uni.max(idx + 1);
            }
        }
    }

    /// the local view of "is the connection dead for `side`", as an error to return
    fn conn_error_for(&self, side: usize) -> Option<ConnectionErrorIncoming> {
        if self.sides[side].timed_out {
            return Some(ConnectionErrorIncoming::Timeout);
        }
        match &self.closed {
            Some(c) if c.by == side => Some(ConnectionErrorIncoming::Undefined(Arc::new(
                SimError("connection closed locally".into()),
            ))),
            Some(c) if self.sides[side].close_seen => Some(ConnectionErrorIncoming::ApplicationClose {
                error_code: c.code,
            }),
            _ => None,
        }
    }

    pub fn close(&mut self, side: usize, code: u64, reason: &[u8]) {
        let info = CloseInfo {
            by: side,
            code,
            reason: reason.to_vec(),
            time: self.time,
        };
        self.close_calls.push(info.clone());
        if self.closed.is_none() {
            self.closed = Some(info);
            // local operations fail from now on
            self.wake_everything(side);
            // a raw peer "sees" the close at once; it has no pending futures
            if self.sides[1 - side].is_raw {
                self.close_delivered = true;
                self.sides[1 - side].close_seen = true;
            }
        }
    }

    /// Idle timeout fired on `side` (only used by dedicated scenarios).
    pub fn timeout(&mut self, side: usize) {
        self.sides[side].timed_out = true;
        self.wake_everything(side);
    }

    fn wake_everything(&mut self, side: usize) {
        wake_all(&mut self.sides[side].open_wakers);
        wake_all(&mut self.sides[side].accept_wakers);
        wake_all(&mut self.sides[side].dgram_wakers);
        for s in self.streams.values_mut() {
            for (sender, p) in s.pipes.iter_mut().enumerate() {
                if let Some(p) = p {
                    if sender == side {
                        wake(&mut p.send_waker);
                    } else {
                        wake(&mut p.recv_waker);
                    }
                }
            }
        }
    }

    fn surface(&mut self, id: u64) {
        let (init, bidi) = id_kind(id);
        let to = 1 - init;
        if self.sides[to].is_raw {
            if let Some(s) = self.streams.get_mut(&id) {
                s.surfaced = true;
            }
            return;
        }
        let mut ids = vec![];
        if self.cfg.ordered_accept {
            for (sid, s) in self.streams.iter() {
                if *sid <= id && id_kind(*sid) == (init, bidi) && !s.surfaced {
                    ids.push(*sid);
                }
            }
        } else {
            ids.push(id);
        }
        for sid in ids {
            let s = self.streams.get_mut(&sid).unwrap();
            if s.surfaced {
                continue;
            }
            s.surfaced = true;
            if bidi {
                self.sides[to].accept_q_bidi.push_back(sid);
            } else {
                self.sides[to].accept_q_uni.push_back(sid);
            }
        }
        wake_all(&mut self.sides[to].accept_wakers);
    }

    /// All network actions that are currently possible.
    pub fn enabled_actions(&self) -> Vec<NetAction> {
        let mut v = Vec::new();
        let dead = self.closed.is_some();
        for (id, s) in self.streams.iter() {
            for sender in 0..2 {
                let Some(p) = &s.pipes[sender] else { continue };
                let receiver = 1 - sender;
                let recv_raw = self.sides[receiver].is_raw;
                if !dead && !recv_raw && !p.reset_delivered {
                    if p.reset_sent.is_some() {
                        // may overtake data still in flight
                        v.push(NetAction::DeliverReset { id: *id, sender });
                    }
                    if p.delivered < p.sent.len() {
                        if !self.cfg.manual_pipes.contains(&(*id, sender)) {
                            v.push(NetAction::Deliver { id: *id, sender });
                        }
                    } else if p.fin_sent && !p.fin_delivered && p.reset_sent.is_none() {
                        v.push(NetAction::DeliverFin { id: *id, sender });
                    }
                }
                if !dead && !self.sides[sender].is_raw {
                    if p.stop_sent.is_some() && !p.stop_delivered {
                        v.push(NetAction::DeliverStop { id: *id, sender });
                    }
                    if p.sender_blocked
                        && self.cfg.backpressure
                        && !self.cfg.stall_budget.contains(&(*id, sender))
                    {
                        v.push(NetAction::GrantBudget { id: *id, sender });
                    }
                }
            }
        }
        if !dead {
            for side in 0..2 {
                let st = &self.sides[side];
                if st.credit_grants_left > 0 {
                    if st.open_blocked_bidi {
                        v.push(NetAction::GrantCredit { side, bidi: true });
                    }
                    if st.open_blocked_uni {
                        v.push(NetAction::GrantCredit { side, bidi: false });
                    }
                }
                if !self.dgram_inflight[side].is_empty() {
                    v.push(NetAction::DeliverDatagram { to: side });
                }
            }
        }
        if let Some(c) = &self.closed {
            if !self.close_delivered && !self.sides[1 - c.by].is_raw {
                v.push(NetAction::DeliverClose);
            }
        }
        v
    }

    fn pick_chunk_len(&self, avail: usize, rng: &mut Rng) -> usize {
        match self.cfg.chunk_style {
            0 => avail,
            1 => 1,
            2 => 1 + rng.usize(avail.min(3)),
            _ => match rng.below(4) {
                0 => 1,
                1 => 1 + rng.usize(avail.min(4)),
                2 => avail,
                _ => 1 + rng.usize(avail),
            },
        }
    }

    pub fn apply(&mut self, a: NetAction, rng: &mut Rng) {
        self.time += 1;
        match a {
            NetAction::Deliver { id, sender } => {
                let avail = {
                    let p = self.streams[&id].pipe(sender);
                    p.sent.len() - p.delivered
                };
                let n = self.pick_chunk_len(avail, rng);
                self.deliver_bytes(id, sender, n);
            }
            NetAction::DeliverFin { id, sender } => {
                self.surface_if_needed(id, sender);
                let p = self.streams.get_mut(&id).unwrap().pipe_mut(sender);
                p.fin_delivered = true;
                wake(&mut p.recv_waker);
            }
            NetAction::DeliverReset { id, sender } => {
                self.surface_if_needed(id, sender);
                let p = self.streams.get_mut(&id).unwrap().pipe_mut(sender);
                p.reset_delivered = true;
                let dropped: usize = p.chunks.iter().map(|c| c.len()).sum();
                p.discarded_by_reset += dropped + (p.sent.len() - p.delivered);
                p.chunks.clear();
                wake(&mut p.recv_waker);
            }
            NetAction::DeliverStop { id, sender } => {
                let p = self.streams.get_mut(&id).unwrap().pipe_mut(sender);
                p.stop_delivered = true;
                wake(&mut p.send_waker);
            }
            NetAction::GrantBudget { id, sender } => {
                let g = 1 + rng.usize(self.cfg.max_budget_grant);
                let p = self.streams.get_mut(&id).unwrap().pipe_mut(sender);
                p.budget += g;
                p.sender_blocked = false;
                wake(&mut p.send_waker);
            }
            NetAction::GrantCredit { side, bidi } => {
                let st = &mut self.sides[side];
                if bidi {
                    st.bidi_credit = st.bidi_credit.saturating_add(1);
                    st.open_blocked_bidi = false;
                } else {
                    st.uni_credit = st.uni_credit.saturating_add(1);
                    st.open_blocked_uni = false;
                }
                st.credit_grants_left = st.credit_grants_left.saturating_sub(1);
                wake_all(&mut st.open_wakers);
            }
            NetAction::DeliverClose => {
                let by = self.closed.as_ref().unwrap().by;
                self.close_delivered = true;
                self.sides[1 - by].close_seen = true;
                self.wake_everything(1 - by);
            }
            NetAction::DeliverDatagram { to } => {
                if let Some(d) = self.dgram_inflight[to].pop_front() {
                    self.sides[to].dgram_q.push_back(d);
                    wake_all(&mut self.sides[to].dgram_wakers);
                }
            }
        }
    }

    fn surface_if_needed(&mut self, id: u64, sender: usize) {
        let (init, _) = id_kind(id);
        if sender == init && !self.streams[&id].surfaced {
            self.surface(id);
        }
    }

    /// Deliver exactly `n` (>0) more bytes of a pipe as one chunk.
    pub fn deliver_bytes(&mut self, id: u64, sender: usize, n: usize) {
        self.surface_if_needed(id, sender);
        let p = self.streams.get_mut(&id).unwrap().pipe_mut(sender);
        let n = n.min(p.sent.len() - p.delivered);
        if n == 0 {
            return;
        }
        let chunk = Bytes::copy_from_slice(&p.sent[p.delivered..p.delivered + n]);
        p.delivered += n;
        p.cut_log.push(p.delivered);
        p.chunks.push_back(chunk);
        wake(&mut p.recv_waker);
    }

    /// Stage a connection-level error that the transport reports to `side` on the operations of ONE
    /// half of stream `id` (from the next call on): `InjectOn::Recv` = `side`'s `poll_data`,
    /// `InjectOn::Send` = `side`'s `send_data` / `poll_ready` / `poll_send`. The
    /// connection is NOT closed and NO waker is woken: pending accepts, reads and writes of every
    /// other stream stay parked and go on working. A connection that is already dead for `side`
    /// (closed, timed out) reports that first.
    pub fn stage_conn_error(&mut self, side: usize, id: u64, on: InjectOn, error: ConnectionErrorIncoming, before_first_report: Option<InjectHook>) {
        let inj = Injected { error, reports: 0, before_first_report };
        let s = self.streams.get_mut(&id).expect("stream");
        match on {
            InjectOn::Recv => s.pipe_mut(1 - side).inject_recv = Some(inj),
            InjectOn::Send => s.pipe_mut(side).inject_send = Some(inj),
        }
        self.stat("conn_errors_staged_on_one_stream");
    }

    /// how many calls reported the error staged with `stage_conn_error`
    pub fn staged_reports(&self, side: usize, id: u64, on: InjectOn) -> u64 {
        let s = &self.streams[&id];
        match on {
            InjectOn::Recv => s.pipe(1 - side).inject_recv.as_ref().map(|i| i.reports).unwrap_or(0),
            InjectOn::Send => s.pipe(side).inject_send.as_ref().map(|i| i.reports).unwrap_or(0),
        }
    }

    // ----------------------------------------------------------------------------------------
    // raw peer operations (the harness plays this side directly; no h3 code involved)

    pub fn raw_open(&mut self, side: usize, bidi: bool) -> u64 {
        self.open_next(side, bidi)
    }
    pub fn raw_write(&mut self, side: usize, id: u64, data: &[u8]) {
        self.time += 1;
        let t = self.time;
        let p = self.streams.get_mut(&id).expect("stream").pipe_mut(side);
        p.sent.extend_from_slice(data);
        let end = p.sent.len();
        p.write_log.push((t, end));
    }
    pub fn raw_fin(&mut self, side: usize, id: u64) {
        self.time += 1;
        let t = self.time;
        let p = self.streams.get_mut(&id).expect("stream").pipe_mut(side);
        if p.reset_sent.is_none() {
            p.fin_sent = true;
            p.fin_time = t;
        }
    }
    pub fn raw_reset(&mut self, side: usize, id: u64, code: u64) {
        self.time += 1;
        let p = self.streams.get_mut(&id).expect("stream").pipe_mut(side);
        if p.reset_sent.is_none() && !(p.fin_sent && p.fin_delivered) {
            p.reset_sent = Some(code);
        }
    }
    /// STOP_SENDING for the direction in which `side` is the receiver
    pub fn raw_stop(&mut self, side: usize, id: u64, code: u64) {
        self.time += 1;
        let p = self.streams.get_mut(&id).expect("stream").pipe_mut(1 - side);
        if p.stop_sent.is_none() {
            p.stop_sent = Some(code);
        }
    }
    /// everything the h3 side (the other side) has written on `id` so far
    pub fn written_by(&self, sender: usize, id: u64) -> &[u8] {
        &self.streams[&id].pipe(sender).sent
    }
}

#[derive(Debug)]
pub struct SimError(pub String);
impl std::fmt::Display for SimError {
    fn fmt(&self, f: &mut std::fmt::Formatter<'_>) -> std::fmt::Result {
        write!(f, "simquic: {}", self.0)
    }
}
impl std::error::Error for SimError {}

fn conn_err(e: ConnectionErrorIncoming) -> StreamErrorIncoming {
    StreamErrorIncoming::ConnectionErrorIncoming { connection_error: e }
}

// ---------------------------------------------------------------------------------------------
// h3::quic trait implementations

pub struct SimConn<B> {
    pub net: Net,
    pub side: usize,
    _p: PhantomData<fn(B)>,
}

impl<B> SimConn<B> {
    pub fn new(net: &Net, side: usize) -> Self {
        SimConn {
            net: net.clone(),
            side,
            _p: PhantomData,
        }
    }
}

pub struct SimOpener<B> {
    pub net: Net,
    pub side: usize,
    _p: PhantomData<fn(B)>,
}

impl<B> Clone for SimOpener<B> {
    fn clone(&self) -> Self {
        SimOpener {
            net: self.net.clone(),
            side: self.side,
            _p: PhantomData,
        }
    }
}

fn poll_open<B: Buf>(
    net: &Net,
    side: usize,
    bidi: bool,
    cx: &mut Context<'_>,
) -> Poll<Result<u64, StreamErrorIncoming>> {
    spin_tick("poll_open", side, None);
    let mut n = lock(net);
    if let Some(e) = n.conn_error_for(side) {
        return Poll::Ready(Err(conn_err(e)));
    }
    let st = &mut n.sides[side];
    let credit = if bidi {
        &mut st.bidi_credit
    } else {
        &mut st.uni_credit
    };
    if *credit == 0 {
        if bidi {
            st.open_blocked_bidi = true;
        } else {
            st.open_blocked_uni = true;
        }
        st.open_wakers.push(cx.waker().clone());
        n.stat("open_blocked_on_credit");
        return Poll::Pending;
    }
    if *credit != u64::MAX {
        *credit -= 1;
    }
    n.time += 1;
    let id = n.open_next(side, bidi);
    Poll::Ready(Ok(id))
}

impl<B: Buf> quic::OpenStreams<B> for SimOpener<B> {
    type BidiStream = SimBidi<B>;
    type SendStream = SimSend<B>;
    fn poll_open_bidi(&mut self, cx: &mut Context<'_>) -> Poll<Result<Self::BidiStream, StreamErrorIncoming>> {
        let id = std::task::ready!(poll_open::<B>(&self.net, self.side, true, cx))?;
        Poll::Ready(Ok(SimBidi::new(&self.net, self.side, id)))
    }
    fn poll_open_send(&mut self, cx: &mut Context<'_>) -> Poll<Result<Self::SendStream, StreamErrorIncoming>> {
        let id = std::task::ready!(poll_open::<B>(&self.net, self.side, false, cx))?;
        Poll::Ready(Ok(SimSend::new(&self.net, self.side, id)))
    }
    fn close(&mut self, code: h3::error::Code, reason: &[u8]) {
        lock(&self.net).close(self.side, code.value(), reason);
    }
}

impl<B: Buf> quic::OpenStreams<B> for SimConn<B> {
    type BidiStream = SimBidi<B>;
    type SendStream = SimSend<B>;
    fn poll_open_bidi(&mut self, cx: &mut Context<'_>) -> Poll<Result<Self::BidiStream, StreamErrorIncoming>> {
        let id = std::task::ready!(poll_open::<B>(&self.net, self.side, true, cx))?;
        Poll::Ready(Ok(SimBidi::new(&self.net, self.side, id)))
    }
    fn poll_open_send(&mut self, cx: &mut Context<'_>) -> Poll<Result<Self::SendStream, StreamErrorIncoming>> {
        let id = std::task::ready!(poll_open::<B>(&self.net, self.side, false, cx))?;
        Poll::Ready(Ok(SimSend::new(&self.net, self.side, id)))
    }
    fn close(&mut self, code: h3::error::Code, reason: &[u8]) {
        lock(&self.net).close(self.side, code.value(), reason);
    }
}

impl<B: Buf> quic::Connection<B> for SimConn<B> {
    type RecvStream = SimRecv;
    type OpenStreams = SimOpener<B>;

    fn poll_accept_recv(&mut self, cx: &mut Context<'_>) -> Poll<Result<Self::RecvStream, ConnectionErrorIncoming>> {
        spin_tick("poll_accept_recv", self.side, None);
        let mut n = lock(&self.net);
        if let Some(e) = n.conn_error_for(self.side) {
            return Poll::Ready(Err(e));
        }
        if let Some(id) = n.sides[self.side].accept_q_uni.pop_front() {
            n.time += 1;
            let t = n.time;
            let s = n.streams.get_mut(&id).unwrap();
            s.accepted = true;
            s.accepted_at = Some(t);
            drop(n);
            return Poll::Ready(Ok(SimRecv::new(&self.net, self.side, id)));
        }
        n.sides[self.side].accept_wakers.push(cx.waker().clone());
        Poll::Pending
    }

    fn poll_accept_bidi(&mut self, cx: &mut Context<'_>) -> Poll<Result<Self::BidiStream, ConnectionErrorIncoming>> {
        spin_tick("poll_accept_bidi", self.side, None);
        let mut n = lock(&self.net);
        if let Some(e) = n.conn_error_for(self.side) {
            return Poll::Ready(Err(e));
        }
        if let Some(id) = n.sides[self.side].accept_q_bidi.pop_front() {
            n.time += 1;
            let t = n.time;
            let s = n.streams.get_mut(&id).unwrap();
            s.accepted = true;
            s.accepted_at = Some(t);
            drop(n);
            return Poll::Ready(Ok(SimBidi::new(&self.net, self.side, id)));
        }
        n.sides[self.side].accept_wakers.push(cx.waker().clone());
        Poll::Pending
    }

    fn opener(&self) -> Self::OpenStreams {
        SimOpener {
            net: self.net.clone(),
            side: self.side,
            _p: PhantomData,
        }
    }
}

/// why a send-side call fails; `into_error` must be called with the net unlocked
enum SendFail {
    Now(StreamErrorIncoming),
    Staged((ConnectionErrorIncoming, Option<InjectHook>)),
}

impl SendFail {
    fn into_error(self) -> StreamErrorIncoming {
        match self {
            SendFail::Now(e) => e,
            SendFail::Staged(r) => inject_result(r),
        }
    }
}

pub struct SimSend<B> {
    net: Net,
    side: usize,
    id: u64,
    writing: Option<WriteBuf<B>>,
    /// `remaining()` of the buffer in flight when it was handed over, and bytes taken from it since
    announced: usize,
    drained: usize,
}

impl<B: Buf> SimSend<B> {
    fn new(net: &Net, side: usize, id: u64) -> Self {
        SimSend {
            net: net.clone(),
            side,
            id,
            writing: None,
            announced: 0,
            drained: 0,
        }
    }

    fn check_errors(&self, n: &mut NetInner) -> Option<SendFail> {
        if let Some(e) = n.conn_error_for(self.side) {
            return Some(SendFail::Now(conn_err(e)));
        }
        let p = n.streams.get_mut(&self.id).unwrap().pipe_mut(self.side);
        if let Some(inj) = p.inject_send.as_mut() {
            return Some(SendFail::Staged(inj.report()));
        }
        if p.stop_delivered {
            return Some(SendFail::Now(StreamErrorIncoming::StreamTerminated {
                error_code: p.stop_sent.unwrap_or(0),
            }));
        }
        None
    }

    fn flush(&mut self, cx: &mut Context<'_>) -> Poll<Result<(), StreamErrorIncoming>> {
        let mut guard = lock(&self.net);
        let n = &mut *guard;
        if let Some(f) = self.check_errors(n) {
            self.writing = None;
            drop(guard);
            return Poll::Ready(Err(f.into_error()));
        }
        let bp = n.cfg.backpressure;
        n.time += 1;
        let t = n.time;
        let p = n.streams.get_mut(&self.id).unwrap().pipe_mut(self.side);
        if let Some(w) = self.writing.as_mut() {
            if p.fin_sent || p.reset_sent.is_some() {
                p.misuse.push("write after FIN/RESET".into());
                self.writing = None;
                return Poll::Ready(Err(StreamErrorIncoming::Unknown(Box::new(SimError(
                    "write after finish".into(),
                )))));
            }
            while w.has_remaining() {
                let c = w.chunk();
                if c.is_empty() {
                    p.misuse.push(format!("WriteBuf::chunk() empty with {} remaining", w.remaining()));
                    self.writing = None;
                    return Poll::Ready(Err(StreamErrorIncoming::Unknown(Box::new(SimError(
                        "empty chunk".into(),
                    )))));
                }
                let take = if bp { c.len().min(p.budget) } else { c.len() };
                if take == 0 {
                    p.sender_blocked = true;
                    p.partial_writes += 1;
                    p.send_waker = Some(cx.waker().clone());
                    return Poll::Pending;
                }
                p.sent.extend_from_slice(&c[..take]);
                let end = p.sent.len();
                self.drained += take;
                if self.drained > self.announced || end > SENT_LIMIT {
                    // nothing the monitors ask an application to send comes near this: a write
                    // buffer that never drains (its remaining() does not go down) is being replayed
                    let d = if self.drained > self.announced {
                        format!("runaway-write on stream {}: a write buffer that announced remaining() = {} has yielded {} bytes and is not empty (its cursor does not advance)", self.id, self.announced, self.drained)
                    } else {
                        format!("runaway-write on stream {}: more than {} bytes accepted from one sender", self.id, SENT_LIMIT)
                    };
                    SPIN_HIT.with(|h| {
                        let mut h = h.borrow_mut();
                        if h.is_none() {
                            *h = Some(d.clone());
                        }
                    });
                    drop(guard);
                    panic!("SIM-SPIN: {}", d);
                }
                p.write_log.push((t, end));
                if bp {
                    p.budget -= take;
                }
                w.advance(take);
            }
            self.writing = None;
        }
        Poll::Ready(Ok(()))
    }
}

impl<B: Buf> quic::SendStream<B> for SimSend<B> {
    fn poll_ready(&mut self, cx: &mut Context<'_>) -> Poll<Result<(), StreamErrorIncoming>> {
        spin_tick("poll_ready", self.side, Some(self.id));
        self.flush(cx)
    }

    fn send_data<T: Into<WriteBuf<B>>>(&mut self, data: T) -> Result<(), StreamErrorIncoming> {
        if self.writing.is_some() {
            // as h3-quinn: a new write is refused while an earlier one is unfinished
            return Err(StreamErrorIncoming::ConnectionErrorIncoming {
                connection_error: ConnectionErrorIncoming::InternalError(
                    "internal error in the http stack".to_string(),
                ),
            });
        }
        let fail = {
            let mut n = lock(&self.net);
            self.check_errors(&mut n)
        };
        if let Some(f) = fail {
            return Err(f.into_error());
        }
        let w: WriteBuf<B> = data.into();
        self.announced = w.remaining();
        self.drained = 0;
        self.writing = Some(w);
        Ok(())
    }

    fn poll_finish(&mut self, cx: &mut Context<'_>) -> Poll<Result<(), StreamErrorIncoming>> {
        spin_tick("poll_finish", self.side, Some(self.id));
        // As with h3-quinn (`poll_finish` = `quinn::SendStream::finish()`, whatever is still held
        // in the adapter's write buffer is dropped): finishing with a write in flight truncates
        // the stream. The caller has to see `poll_ready` through first; doing otherwise is logged.
        let unwritten = self.writing.as_ref().map(|w| w.remaining()).unwrap_or(0);
        if unwritten > 0 {
            self.writing = None;
        }
        let _ = cx;
        let mut n = lock(&self.net);
        n.time += 1;
        let t = n.time;
        let p = n.streams.get_mut(&self.id).unwrap().pipe_mut(self.side);
        if unwritten > 0 {
            p.misuse.push(format!("poll_finish with a write in flight: {} accepted byte(s) never reach the peer", unwritten));
        }
        if p.reset_sent.is_none() && !p.fin_sent {
            p.fin_sent = true;
            p.fin_time = t;
        }
        Poll::Ready(Ok(()))
    }

    fn reset(&mut self, reset_code: u64) {
        self.writing = None;
        let mut n = lock(&self.net);
        n.time += 1;
        let p = n.streams.get_mut(&self.id).unwrap().pipe_mut(self.side);
        if p.reset_sent.is_none() && !p.fin_sent {
            p.reset_sent = Some(reset_code);
        }
    }

    fn send_id(&self) -> StreamId {
        StreamId::try_from(self.id).expect("valid id")
    }
}

impl<B: Buf> quic::SendStreamUnframed<B> for SimSend<B> {
    fn poll_send<D: Buf>(&mut self, cx: &mut Context<'_>, buf: &mut D) -> Poll<Result<usize, StreamErrorIncoming>> {
        spin_tick("poll_send", self.side, Some(self.id));
        if self.writing.is_some() {
            // finish the framed write first
            std::task::ready!(self.flush(cx))?;
        }
        let mut guard = lock(&self.net);
        let n = &mut *guard;
        if let Some(f) = self.check_errors(n) {
            drop(guard);
            return Poll::Ready(Err(f.into_error()));
        }
        let bp = n.cfg.backpressure;
        n.time += 1;
        let t = n.time;
        let p = n.streams.get_mut(&self.id).unwrap().pipe_mut(self.side);
        let c = buf.chunk();
        if c.is_empty() {
            return Poll::Ready(Ok(0));
        }
        let take = if bp { c.len().min(p.budget) } else { c.len() };
        if take == 0 {
            p.sender_blocked = true;
            p.send_waker = Some(cx.waker().clone());
            return Poll::Pending;
        }
        p.sent.extend_from_slice(&c[..take]);
        let end = p.sent.len();
        p.write_log.push((t, end));
        if bp {
            p.budget -= take;
        }
        buf.advance(take);
        Poll::Ready(Ok(take))
    }
}

impl<B> Drop for SimSend<B> {
    fn drop(&mut self) {
        let mut n = lock(&self.net);
        n.time += 1;
        let t = n.time;
        if let Some(s) = n.streams.get_mut(&self.id) {
            let p = s.pipe_mut(self.side);
            p.sender_dropped = true;
            // Quinn finishes a send stream implicitly when it is dropped
            if !p.fin_sent && p.reset_sent.is_none() {
                p.fin_sent = true;
                p.fin_implicit = true;
                p.fin_time = t;
            }
        }
    }
}

pub struct SimRecv {
    net: Net,
    side: usize,
    id: u64,
}

impl SimRecv {
    fn new(net: &Net, side: usize, id: u64) -> Self {
        SimRecv {
            net: net.clone(),
            side,
            id,
        }
    }
}

/// What the simulated transport hands to h3 for received stream data: one or several
/// non-contiguous segments (`chunk()` shows the first one only).
#[derive(Debug, Clone, Default)]
pub struct RecvBuf {
    segs: std::collections::VecDeque<Bytes>,
}

impl RecvBuf {
    pub fn whole(b: Bytes) -> Self {
        let mut segs = std::collections::VecDeque::new();
        if !b.is_empty() {
            segs.push_back(b);
        }
        RecvBuf { segs }
    }
    /// cut into 2..4 segments at positions derived from the content length and a salt
    pub fn rope(mut b: Bytes, salt: u64) -> Self {
        let mut segs = std::collections::VecDeque::new();
        let mut x = salt | 1;
        let pieces = 2 + (salt % 3) as usize;
        for _ in 1..pieces {
            if b.len() < 2 {
                break;
            }
            x = x.wrapping_mul(6364136223846793005).wrapping_add(1442695040888963407);
            let cut = 1 + (x >> 33) as usize % (b.len() - 1);
            segs.push_back(b.split_to(cut));
        }
        if !b.is_empty() {
            segs.push_back(b);
        }
        RecvBuf { segs }
    }
}

impl Buf for RecvBuf {
    fn remaining(&self) -> usize {
        self.segs.iter().map(|s| s.len()).sum()
    }
    fn chunk(&self) -> &[u8] {
        self.segs.front().map(|s| &s[..]).unwrap_or(&[])
    }
    fn advance(&mut self, mut cnt: usize) {
        while cnt > 0 {
            let f = self.segs.front_mut().expect("advance beyond the end of a RecvBuf");
            if cnt < f.len() {
                f.advance(cnt);
                return;
            }
            cnt -= f.len();
            self.segs.pop_front();
        }
    }
}

impl quic::RecvStream for SimRecv {
    type Buf = RecvBuf;

    fn poll_data(&mut self, cx: &mut Context<'_>) -> Poll<Result<Option<Self::Buf>, StreamErrorIncoming>> {
        spin_tick("poll_data", self.side, Some(self.id));
        let mut guard = lock(&self.net);
        let n = &mut *guard;
        if let Some(e) = n.conn_error_for(self.side) {
            return Poll::Ready(Err(conn_err(e)));
        }
        let p = n.streams.get_mut(&self.id).unwrap().pipe_mut(1 - self.side);
        if let Some(inj) = p.inject_recv.as_mut() {
            // reported on this stream only: the connection stays open, nobody is woken
            let r = inj.report();
            drop(guard);
            return Poll::Ready(Err(inject_result(r)));
        }
        if p.reset_delivered {
            // Quinn reports the peer's reset once; a stream read again afterwards answers
            // "no more data" (measured over real Quinn by C17: read_again_after_error[reset:None])
            if p.recv_end_seen == Some("reset") {
                p.reset_read_again += 1;
                return Poll::Ready(Ok(None));
            }
            p.recv_end_seen = Some("reset");
            return Poll::Ready(Err(StreamErrorIncoming::StreamTerminated {
                error_code: p.reset_sent.unwrap_or(0),
            }));
        }
        if let Some(c) = p.chunks.pop_front() {
            p.read += c.len();
            let salt = (p.read as u64) << 8 ^ self.id;
            let segmented = n.cfg.segmented_recv && c.len() >= 2;
            if segmented {
                n.stat("recv_chunks_handed_over_as_a_rope");
            }
            return Poll::Ready(Ok(Some(if segmented { RecvBuf::rope(c, salt) } else { RecvBuf::whole(c) })));
        }
        if p.fin_delivered {
            p.fin_read = true;
            p.recv_end_seen = Some("fin");
            return Poll::Ready(Ok(None));
        }
        p.recv_waker = Some(cx.waker().clone());
        Poll::Pending
    }

    fn stop_sending(&mut self, error_code: u64) {
        let mut n = lock(&self.net);
        n.time += 1;
        let p = n.streams.get_mut(&self.id).unwrap().pipe_mut(1 - self.side);
        if p.stop_sent.is_none() {
            p.stop_sent = Some(error_code);
        }
    }

    fn recv_id(&self) -> StreamId {
        StreamId::try_from(self.id).expect("valid id")
    }
}

impl Drop for SimRecv {
    fn drop(&mut self) {
        let mut n = lock(&self.net);
        if let Some(s) = n.streams.get_mut(&self.id) {
            let p = s.pipe_mut(1 - self.side);
            p.receiver_dropped = true;
            // Quinn sends STOP_SENDING(0) when a receive stream is dropped before its end
            if !p.fin_read && !p.reset_delivered && p.stop_sent.is_none() {
                p.stop_sent = Some(0);
                p.stop_implicit = true;
            }
        }
    }
}

impl quic::Is0rtt for SimRecv {
    fn is_0rtt(&self) -> bool {
        false
    }
}

pub struct SimBidi<B> {
    pub send: SimSend<B>,
    pub recv: SimRecv,
}

impl<B: Buf> SimBidi<B> {
    fn new(net: &Net, side: usize, id: u64) -> Self {
        SimBidi {
            send: SimSend::new(net, side, id),
            recv: SimRecv::new(net, side, id),
        }
    }
}

impl<B: Buf> quic::SendStream<B> for SimBidi<B> {
    fn poll_ready(&mut self, cx: &mut Context<'_>) -> Poll<Result<(), StreamErrorIncoming>> {
        self.send.poll_ready(cx)
    }
    fn send_data<T: Into<WriteBuf<B>>>(&mut self, data: T) -> Result<(), StreamErrorIncoming> {
        self.send.send_data(data)
    }
    fn poll_finish(&mut self, cx: &mut Context<'_>) -> Poll<Result<(), StreamErrorIncoming>> {
        self.send.poll_finish(cx)
    }
    fn reset(&mut self, reset_code: u64) {
        self.send.reset(reset_code)
    }
    fn send_id(&self) -> StreamId {
        self.send.send_id()
    }
}

impl<B: Buf> quic::SendStreamUnframed<B> for SimBidi<B> {
    fn poll_send<D: Buf>(&mut self, cx: &mut Context<'_>, buf: &mut D) -> Poll<Result<usize, StreamErrorIncoming>> {
        self.send.poll_send(cx, buf)
    }
}

impl<B: Buf> quic::RecvStream for SimBidi<B> {
    type Buf = RecvBuf;
    fn poll_data(&mut self, cx: &mut Context<'_>) -> Poll<Result<Option<Self::Buf>, StreamErrorIncoming>> {
        self.recv.poll_data(cx)
    }
    fn stop_sending(&mut self, error_code: u64) {
        self.recv.stop_sending(error_code)
    }
    fn recv_id(&self) -> StreamId {
        self.recv.recv_id()
    }
}

impl<B: Buf> quic::BidiStream<B> for SimBidi<B> {
    type SendStream = SimSend<B>;
    type RecvStream = SimRecv;
    fn split(self) -> (Self::SendStream, Self::RecvStream) {
        (self.send, self.recv)
    }
}

impl<B> quic::Is0rtt for SimBidi<B> {
    fn is_0rtt(&self) -> bool {
        false
    }
}

// ---------------------------------------------------------------------------------------------
// h3-datagram traits

pub struct SimDgramSend {
    net: Net,
    side: usize,
}
pub struct SimDgramRecv {
    net: Net,
    side: usize,
}

impl<B: Buf> h3_datagram::quic_traits::SendDatagram<B> for SimDgramSend {
    fn send_datagram<T: Into<h3_datagram::datagram::EncodedDatagram<B>>>(
        &mut self,
        data: T,
    ) -> Result<(), h3_datagram::quic_traits::SendDatagramErrorIncoming> {
        let mut buf: h3_datagram::datagram::EncodedDatagram<B> = data.into();
        let mut n = lock(&self.net);
        if let Some(e) = n.conn_error_for(self.side) {
            return Err(h3_datagram::quic_traits::SendDatagramErrorIncoming::ConnectionError(e));
        }
        // drain with chunk/advance (a transport is free to do so)
        let mut out = Vec::with_capacity(buf.remaining());
        while buf.has_remaining() {
            let c = buf.chunk();
            let l = c.len();
            out.extend_from_slice(c);
            buf.advance(l);
        }
        n.dgram_sent[self.side].push(out.clone());
        let to = 1 - self.side;
        n.dgram_inflight[to].push_back(Bytes::from(out));
        Ok(())
    }
}

impl h3_datagram::quic_traits::RecvDatagram for SimDgramRecv {
    type Buffer = Bytes;
    fn poll_incoming_datagram(&mut self, cx: &mut Context<'_>) -> Poll<Result<Self::Buffer, ConnectionErrorIncoming>> {
        spin_tick("poll_incoming_datagram", self.side, None);
        let mut n = lock(&self.net);
        if let Some(d) = n.sides[self.side].dgram_q.pop_front() {
            return Poll::Ready(Ok(d));
        }
        if let Some(e) = n.conn_error_for(self.side) {
            return Poll::Ready(Err(e));
        }
        n.sides[self.side].dgram_wakers.push(cx.waker().clone());
        Poll::Pending
    }
}

impl<B: Buf> h3_datagram::quic_traits::DatagramConnectionExt<B> for SimConn<B> {
    type SendDatagramHandler = SimDgramSend;
    type RecvDatagramHandler = SimDgramRecv;
    fn send_datagram_handler(&self) -> Self::SendDatagramHandler {
        SimDgramSend {
            net: self.net.clone(),
            side: self.side,
        }
    }
    fn recv_datagram_handler(&self) -> Self::RecvDatagramHandler {
        SimDgramRecv {
            net: self.net.clone(),
            side: self.side,
        }
    }
}

pub fn new_net(cfg: NetCfg) -> Net {
    Arc::new(Mutex::new(NetInner::new(cfg)))
}
