//! Small deterministic utilities shared by all monitors: PRNG, hashing, hex.

use std::hash::{Hash, Hasher};

/// splitmix64-seeded xoshiro256** — deterministic, independent of `fastrand`
/// (which h3 itself uses for grease values and which the harness pins separately).
#[derive(Clone, Debug)]
pub struct Rng {
    s: [u64; 4],
}

fn splitmix(x: &mut u64) -> u64 {
    *x = x.wrapping_add(0x9e3779b97f4a7c15);
    let mut z = *x;
    z = (z ^ (z >> 30)).wrapping_mul(0xbf58476d1ce4e5b9);
    z = (z ^ (z >> 27)).wrapping_mul(0x94d049bb133111eb);
    z ^ (z >> 31)
}

impl Rng {
    pub fn new(seed: u64) -> Self {
        let mut x = seed;
        let s = [
            splitmix(&mut x),
            splitmix(&mut x),
            splitmix(&mut x),
            splitmix(&mut x),
        ];
        Rng { s }
    }
    pub fn next(&mut self) -> u64 {
        let r = self.s[1].wrapping_mul(5).rotate_left(7).wrapping_mul(9);
        let t = self.s[1] << 17;
        self.s[2] ^= self.s[0];
        self.s[3] ^= self.s[1];
        self.s[1] ^= self.s[2];
        self.s[0] ^= self.s[3];
        self.s[2] ^= t;
        self.s[3] = self.s[3].rotate_left(45);
        r
    }
    /// uniform in 0..n (n > 0)
    pub fn below(&mut self, n: u64) -> u64 {
        debug_assert!(n > 0);
        // multiply-shift; bias negligible for our n
        ((self.next() as u128 * n as u128) >> 64) as u64
    }
    pub fn usize(&mut self, n: usize) -> usize {
        self.below(n as u64) as usize
    }
    /// inclusive range
    pub fn range(&mut self, lo: u64, hi: u64) -> u64 {
        lo + self.below(hi - lo + 1)
    }
    pub fn bool(&mut self) -> bool {
        self.next() & 1 == 1
    }
    /// true with probability num/den
    pub fn chance(&mut self, num: u64, den: u64) -> bool {
        self.below(den) < num
    }
    pub fn pick<'a, T>(&mut self, xs: &'a [T]) -> &'a T {
        &xs[self.usize(xs.len())]
    }
    pub fn bytes(&mut self, n: usize) -> Vec<u8> {
        (0..n).map(|_| self.next() as u8).collect()
    }
    /// random bytes of a random length in 0..max
    pub fn bytes_upto(&mut self, max: usize) -> Vec<u8> {
        let n = self.usize(max.max(1));
        self.bytes(n)
    }
    /// random bytes of a random length in 1..=max
    pub fn bytes_1upto(&mut self, max: usize) -> Vec<u8> {
        let n = 1 + self.usize(max.max(1));
        self.bytes(n)
    }
    pub fn shuffle<T>(&mut self, xs: &mut [T]) {
        for i in (1..xs.len()).rev() {
            let j = self.usize(i + 1);
            xs.swap(i, j);
        }
    }
    pub fn fork(&mut self) -> Rng {
        Rng::new(self.next())
    }
}

/// Derive a per-case seed from the master seed, the generator name and the case index.
pub fn case_seed(master: u64, gen: &str, index: u64) -> u64 {
    let mut x = master ^ 0x6a09e667f3bcc908;
    let mut h = splitmix(&mut x);
    for b in gen.bytes() {
        h = (h ^ b as u64).wrapping_mul(0x100000001b3);
    }
    let mut y = h ^ index.wrapping_mul(0x9e3779b97f4a7c15);
    splitmix(&mut y)
}

/// Deterministic 64-bit hash (SipHash with fixed keys).
pub fn hash64<T: Hash + ?Sized>(t: &T) -> u64 {
    #[allow(deprecated)]
    let mut h = std::hash::SipHasher::new();
    t.hash(&mut h);
    h.finish()
}

pub fn hex(b: &[u8]) -> String {
    let mut s = String::with_capacity(b.len() * 2);
    for x in b {
        s.push_str(&format!("{:02x}", x));
    }
    s
}

pub fn hex_short(b: &[u8], max: usize) -> String {
    if b.len() <= max {
        hex(b)
    } else {
        format!("{}..(+{} B)", hex(&b[..max]), b.len() - max)
    }
}

pub fn unhex(s: &str) -> Vec<u8> {
    let s: Vec<u8> = s.bytes().filter(|c| c.is_ascii_hexdigit()).collect();
    s.chunks(2)
        .map(|p| u8::from_str_radix(std::str::from_utf8(p).unwrap(), 16).unwrap())
        .collect()
}

/// Split `data` into non-empty chunks according to a cut bitmask generator.
/// `cuts[i] == true` means "cut after byte i" (i < len-1).
pub fn cut_by_mask(data: &[u8], mask: u64) -> Vec<Vec<u8>> {
    let mut out = Vec::new();
    let mut cur = Vec::new();
    for (i, b) in data.iter().enumerate() {
        cur.push(*b);
        if i + 1 < data.len() && i < 64 && (mask >> i) & 1 == 1 {
            out.push(std::mem::take(&mut cur));
        }
    }
    if !cur.is_empty() {
        out.push(cur);
    }
    out
}

/// Random chunking of `data` into non-empty chunks.
pub fn cut_random(data: &[u8], rng: &mut Rng) -> Vec<Vec<u8>> {
    let mut out = Vec::new();
    let mut i = 0;
    // pick a "style" so that we get all-ones, small, large and mixed chunkings
    let style = rng.below(4);
    while i < data.len() {
        let rem = data.len() - i;
        let n = match style {
            0 => 1,
            1 => 1 + rng.usize(3.min(rem)),
            2 => 1 + rng.usize(rem),
            _ => {
                if rng.chance(1, 3) {
                    1
                } else {
                    1 + rng.usize(rem.min(64))
                }
            }
        };
        out.push(data[i..i + n].to_vec());
        i += n;
    }
    out
}
