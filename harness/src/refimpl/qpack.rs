//! RFC 9204 field-section codec (reference) + RFC 7541 §5.1 prefixed integers / §5.2 strings.
//! Stateless part (static table + literals) and the syntactic parser used by the stateful
//! monitor. Independent of h3's qpack module.

use super::huffman;
use super::static_table::STATIC_TABLE;

#[derive(Debug, Clone, Copy, PartialEq, Eq)]
pub enum IntErr {
    Truncated,
}

/// Decoded prefixed integer. The value is exact up to u128 saturation, so "true value exceeds
/// u64" is decidable.
#[derive(Debug, Clone, Copy, PartialEq, Eq)]
pub struct PInt {
    /// bits above the prefix in the first byte
    pub flags: u8,
    pub value: u128,
    pub consumed: usize,
    /// number of continuation bytes
    pub cont: usize,
}

/// RFC 7541 §5.1 with an N-bit prefix (1..=8).
pub fn int_decode(n: u8, b: &[u8]) -> Result<PInt, IntErr> {
    assert!((1..=8).contains(&n));
    if b.is_empty() {
        return Err(IntErr::Truncated);
    }
    let mask: u16 = (1u16 << n) - 1;
    let first = b[0] as u16;
    let flags = if n == 8 { 0 } else { (first >> n) as u8 };
    let mut value = (first & mask) as u128;
    if value < mask as u128 {
        return Ok(PInt {
            flags,
            value,
            consumed: 1,
            cont: 0,
        });
    }
    let mut m: u32 = 0;
    let mut i = 1;
    loop {
        if i >= b.len() {
            return Err(IntErr::Truncated);
        }
        let byte = b[i];
        let add = if m >= 120 {
            if byte & 0x7f != 0 {
                u128::MAX
            } else {
                0
            }
        } else {
            ((byte & 0x7f) as u128) << m
        };
        value = value.saturating_add(add);
        m = m.saturating_add(7);
        i += 1;
        if byte & 0x80 == 0 {
            break;
        }
    }
    Ok(PInt {
        flags,
        value,
        consumed: i,
        cont: i - 1,
    })
}

/// Minimal RFC 7541 §5.1 encoding; `flags` are placed above the prefix.
pub fn int_encode(n: u8, flags: u8, value: u64, out: &mut Vec<u8>) {
    assert!((1..=8).contains(&n));
    let mask: u64 = (1u64 << n) - 1;
    let fl = if n == 8 { 0u8 } else { ((flags as u16) << n) as u8 };
    if value < mask {
        out.push(fl | value as u8);
        return;
    }
    out.push(fl | mask as u8);
    let mut rem = value - mask;
    while rem >= 128 {
        out.push((rem % 128) as u8 | 0x80);
        rem /= 128;
    }
    out.push(rem as u8);
}

/// Like `int_encode` but appends `pad` redundant continuation bytes (0x80 ... 0x00), a legal
/// non-minimal form under RFC 7541 §5.1.
pub fn int_encode_padded(n: u8, flags: u8, value: u64, pad: usize, out: &mut Vec<u8>) {
    if pad == 0 {
        return int_encode(n, flags, value, out);
    }
    let mask: u64 = (1u64 << n) - 1;
    let fl = if n == 8 { 0u8 } else { ((flags as u16) << n) as u8 };
    // force the multi-byte form: only possible when value >= mask
    if value < mask {
        return int_encode(n, flags, value, out);
    }
    out.push(fl | mask as u8);
    let mut rem = value - mask;
    while rem >= 128 {
        out.push((rem % 128) as u8 | 0x80);
        rem /= 128;
    }
    out.push(rem as u8 | 0x80);
    for _ in 0..pad - 1 {
        out.push(0x80);
    }
    out.push(0x00);
}

#[derive(Debug, Clone, Copy, PartialEq, Eq)]
pub enum StrErr {
    Truncated,
    /// length does not fit the implementation (we use: > 2^62)
    LenTooBig,
    /// invalid Huffman payload, with the reason from `huffman::classify`
    Huffman(&'static str),
}

pub fn huffman_invalid_reason(payload: &[u8]) -> &'static str {
    match huffman::classify(payload) {
        huffman::Validity::Valid(_) => "classifier-disagrees",
        huffman::Validity::OverlongPadding(_) => "padding-longer-than-7-bits",
        // the EOS symbol closing the string (fewer than 8 one-bits behind it) and the EOS symbol followed by
        // a byte or more of ones are different inputs: one signature each
        huffman::Validity::Eos { at_end: true, trailing_bits } if trailing_bits < 8 => "EOS-symbol-at-end",
        huffman::Validity::Eos { at_end: true, .. } => "EOS-symbol-then-a-byte-or-more-of-ones",
        huffman::Validity::Eos { at_end: false, .. } => "EOS-symbol-inside",
        huffman::Validity::BadPadding => "padding-not-EOS-prefix",
    }
}

#[derive(Debug, Clone, PartialEq, Eq)]
pub struct PStr {
    /// bits above the H bit
    pub flags: u8,
    pub huffman: bool,
    pub value: Vec<u8>,
    pub consumed: usize,
}

/// String literal whose first byte carries `n` usable bits: 1 bit H + (n-1)-bit length prefix.
pub fn str_decode(n: u8, b: &[u8]) -> Result<PStr, StrErr> {
    assert!((2..=8).contains(&n));
    let li = int_decode(n - 1, b).map_err(|_| StrErr::Truncated)?;
    let h = li.flags & 1 == 1;
    let flags = li.flags >> 1;
    if li.value > (1u128 << 62) {
        return Err(StrErr::LenTooBig);
    }
    let len = li.value as usize;
    if b.len() - li.consumed < len {
        return Err(StrErr::Truncated);
    }
    let payload = &b[li.consumed..li.consumed + len];
    let value = if h {
        match huffman::decode(payload) {
            Some(v) => v,
            None => return Err(StrErr::Huffman(huffman_invalid_reason(payload))),
        }
    } else {
        payload.to_vec()
    };
    Ok(PStr {
        flags,
        huffman: h,
        value,
        consumed: li.consumed + len,
    })
}

pub fn str_encode(n: u8, flags: u8, value: &[u8], use_huffman: bool, out: &mut Vec<u8>) {
    if use_huffman {
        let enc = huffman::encode(value);
        int_encode(n - 1, (flags << 1) | 1, enc.len() as u64, out);
        out.extend_from_slice(&enc);
    } else {
        int_encode(n - 1, flags << 1, value.len() as u64, out);
        out.extend_from_slice(value);
    }
}

// ---------------------------------------------------------------------------------------------
// field lines

pub type Field = (Vec<u8>, Vec<u8>);

#[derive(Debug, Clone, PartialEq, Eq)]
pub enum Line {
    IndexedStatic(u128),
    IndexedDynamic(u128),
    PostBaseIndexed(u128),
    LitNameRefStatic { idx: u128, value: Vec<u8> },
    LitNameRefDynamic { idx: u128, value: Vec<u8> },
    LitPostBaseNameRef { idx: u128, value: Vec<u8> },
    Literal { name: Vec<u8>, value: Vec<u8> },
}

#[derive(Debug, Clone, PartialEq, Eq)]
pub enum ParseErr {
    Truncated,
    Huffman(&'static str),
    LenTooBig,
}

impl From<StrErr> for ParseErr {
    fn from(e: StrErr) -> Self {
        match e {
            StrErr::Truncated => ParseErr::Truncated,
            StrErr::Huffman(w) => ParseErr::Huffman(w),
            StrErr::LenTooBig => ParseErr::LenTooBig,
        }
    }
}
impl From<IntErr> for ParseErr {
    fn from(_: IntErr) -> Self {
        ParseErr::Truncated
    }
}

#[derive(Debug, Clone, PartialEq, Eq)]
pub struct Section {
    pub enc_ric: u128,
    pub sign: bool,
    pub delta_base: u128,
    pub lines: Vec<Line>,
    /// largest number of integer continuation bytes seen anywhere (for don't-care zones)
    pub max_cont: usize,
    /// largest integer seen anywhere
    pub max_int: u128,
}

/// Purely syntactic parse of an encoded field section (RFC 9204 §4.5).
pub fn parse_section(b: &[u8]) -> Result<Section, ParseErr> {
    let mut pos = 0;
    let mut max_cont = 0usize;
    let mut max_int = 0u128;
    let mut track = |p: &PInt| {
        max_cont = max_cont.max(p.cont);
        max_int = max_int.max(p.value);
    };
    let ric = int_decode(8, &b[pos..])?;
    track(&ric);
    pos += ric.consumed;
    let db = int_decode(7, &b[pos..])?;
    track(&db);
    pos += db.consumed;
    let mut lines = Vec::new();
    while pos < b.len() {
        let f = b[pos];
        if f & 0x80 != 0 {
            // 1 T index(6+)
            let i = int_decode(6, &b[pos..])?;
            track(&i);
            pos += i.consumed;
            if f & 0x40 != 0 {
                lines.push(Line::IndexedStatic(i.value));
            } else {
                lines.push(Line::IndexedDynamic(i.value));
            }
        } else if f & 0x40 != 0 {
            // 0 1 N T nameidx(4+)
            let i = int_decode(4, &b[pos..])?;
            track(&i);
            pos += i.consumed;
            let lenp = int_decode(7, &b[pos..])?;
            track(&lenp);
            let s = str_decode(8, &b[pos..])?;
            pos += s.consumed;
            if f & 0x10 != 0 {
                lines.push(Line::LitNameRefStatic {
                    idx: i.value,
                    value: s.value,
                });
            } else {
                lines.push(Line::LitNameRefDynamic {
                    idx: i.value,
                    value: s.value,
                });
            }
        } else if f & 0x20 != 0 {
            // 0 0 1 N H namelen(3+)
            let lenp = int_decode(3, &b[pos..])?;
            track(&lenp);
            let name = str_decode(4, &b[pos..])?;
            pos += name.consumed;
            let lenp = int_decode(7, &b[pos..])?;
            track(&lenp);
            let value = str_decode(8, &b[pos..])?;
            pos += value.consumed;
            lines.push(Line::Literal {
                name: name.value,
                value: value.value,
            });
        } else if f & 0x10 != 0 {
            // 0 0 0 1 index(4+)
            let i = int_decode(4, &b[pos..])?;
            track(&i);
            pos += i.consumed;
            lines.push(Line::PostBaseIndexed(i.value));
        } else {
            // 0 0 0 0 N nameidx(3+)
            let i = int_decode(3, &b[pos..])?;
            track(&i);
            pos += i.consumed;
            let lenp = int_decode(7, &b[pos..])?;
            track(&lenp);
            let s = str_decode(8, &b[pos..])?;
            pos += s.consumed;
            lines.push(Line::LitPostBaseNameRef {
                idx: i.value,
                value: s.value,
            });
        }
    }
    Ok(Section {
        enc_ric: ric.value,
        sign: db.flags & 1 == 1,
        delta_base: db.value,
        lines,
        max_cont,
        max_int,
    })
}

#[derive(Debug, Clone, PartialEq, Eq)]
pub enum Stateless {
    /// valid static/literal-only section with RIC 0, Base 0: must be accepted with these fields
    MustAccept(Vec<Field>),
    /// invalid, or needs the dynamic table: must be rejected (with a non-size error)
    MustReject(String),
    /// RFC leaves it open (e.g. RIC 0 with a positive Base, very long integer encodings):
    /// if accepted the fields must equal these
    DontCare(Vec<Field>, &'static str),
}

/// What a decoder without dynamic table (capacity 0) has to do with `b`.
pub fn judge_stateless(b: &[u8]) -> Stateless {
    let s = match parse_section(b) {
        Ok(s) => s,
        Err(ParseErr::Truncated) => return Stateless::MustReject("truncated".into()),
        Err(ParseErr::Huffman(w)) => return Stateless::MustReject(format!("huffman:{}", w)),
        Err(ParseErr::LenTooBig) => return Stateless::MustReject("oversized-string-length".into()),
    };
    if s.enc_ric != 0 {
        // RFC 9204 §4.5.1.1: with MaxEntries = 0 no conformant encoder produces a non-zero value
        return Stateless::MustReject("ric!=0".into());
    }
    if s.sign {
        // §4.5.1.2: Sign bit 1 invalid when Required Insert Count <= Delta Base
        return Stateless::MustReject("base<0".into());
    }
    let mut fields = Vec::new();
    for l in &s.lines {
        match l {
            Line::IndexedStatic(i) => {
                if *i >= 99 {
                    return Stateless::MustReject("static-index>=99".into());
                }
                let (n, v) = STATIC_TABLE[*i as usize];
                fields.push((n.as_bytes().to_vec(), v.as_bytes().to_vec()));
            }
            Line::LitNameRefStatic { idx, value } => {
                if *idx >= 99 {
                    return Stateless::MustReject("static-name-index>=99".into());
                }
                let (n, _) = STATIC_TABLE[*idx as usize];
                fields.push((n.as_bytes().to_vec(), value.clone()));
            }
            Line::Literal { name, value } => fields.push((name.clone(), value.clone())),
            Line::IndexedDynamic(_)
            | Line::PostBaseIndexed(_)
            | Line::LitNameRefDynamic { .. }
            | Line::LitPostBaseNameRef { .. } => {
                return Stateless::MustReject("dynamic-reference".into())
            }
        }
    }
    if s.delta_base != 0 {
        return Stateless::DontCare(fields, "RIC 0 with positive Base");
    }
    if s.max_cont >= 10 || s.max_int >= (1u128 << 62) {
        return Stateless::DontCare(fields, "integer beyond 62 bits / >= 10 continuation bytes");
    }
    Stateless::MustAccept(fields)
}

pub fn section_size(fields: &[Field]) -> u64 {
    fields
        .iter()
        .map(|(n, v)| n.len() as u64 + v.len() as u64 + 32)
        .sum()
}

// ---------------------------------------------------------------------------------------------
// reference encoder (stateless)

#[derive(Debug, Clone, Copy)]
pub struct EncOpts {
    pub use_static_exact: bool,
    pub use_static_name: bool,
    pub huffman: bool,
    pub never_index_bit: bool,
}

impl Default for EncOpts {
    fn default() -> Self {
        EncOpts {
            use_static_exact: true,
            use_static_name: true,
            huffman: false,
            never_index_bit: false,
        }
    }
}

pub fn find_static_exact(name: &[u8], value: &[u8]) -> Option<usize> {
    STATIC_TABLE
        .iter()
        .position(|(n, v)| n.as_bytes() == name && v.as_bytes() == value)
}
pub fn find_static_name(name: &[u8]) -> Option<usize> {
    STATIC_TABLE.iter().position(|(n, _)| n.as_bytes() == name)
}

pub fn encode_line(name: &[u8], value: &[u8], o: &EncOpts, out: &mut Vec<u8>) {
    if o.use_static_exact {
        if let Some(i) = find_static_exact(name, value) {
            int_encode(6, 0b11, i as u64, out);
            return;
        }
    }
    if o.use_static_name {
        if let Some(i) = find_static_name(name) {
            // 0 1 N T idx(4+)
            let fl = 0b0101 | if o.never_index_bit { 0b0010 } else { 0 };
            int_encode(4, fl, i as u64, out);
            str_encode(8, 0, value, o.huffman, out);
            return;
        }
    }
    // 0 0 1 N H len(3+)
    let fl = 0b001u8 << 1 | if o.never_index_bit { 1 } else { 0 };
    str_encode(4, fl, name, o.huffman, out);
    str_encode(8, 0, value, o.huffman, out);
}

pub fn encode_section(fields: &[Field], o: &EncOpts) -> Vec<u8> {
    let mut out = vec![0u8, 0u8];
    for (n, v) in fields {
        encode_line(n, v, o, &mut out);
    }
    out
}
