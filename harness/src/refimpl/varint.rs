//! RFC 9000 §16 variable-length integers (reference).

pub const MAX: u64 = (1u64 << 62) - 1;

#[derive(Debug, Clone, Copy, PartialEq, Eq)]
pub struct Truncated;

/// Shortest-form encoding. `None` if v >= 2^62.
pub fn encode(v: u64) -> Option<Vec<u8>> {
    if v < 1 << 6 {
        Some(vec![v as u8])
    } else if v < 1 << 14 {
        Some(vec![0x40 | (v >> 8) as u8, v as u8])
    } else if v < 1 << 30 {
        Some(vec![
            0x80 | (v >> 24) as u8,
            (v >> 16) as u8,
            (v >> 8) as u8,
            v as u8,
        ])
    } else if v <= MAX {
        let mut b = v.to_be_bytes().to_vec();
        b[0] |= 0xc0;
        Some(b)
    } else {
        None
    }
}

pub fn put(out: &mut Vec<u8>, v: u64) {
    out.extend_from_slice(&encode(v).expect("varint out of range"));
}

/// Encode in a specific form (1, 2, 4 or 8 bytes), possibly non-minimal. `None` if it does not fit.
pub fn encode_form(v: u64, len: usize) -> Option<Vec<u8>> {
    let (bits, tag) = match len {
        1 => (6, 0x00u8),
        2 => (14, 0x40),
        4 => (30, 0x80),
        8 => (62, 0xc0),
        _ => return None,
    };
    if bits < 64 && v >> bits != 0 {
        return None;
    }
    let full = v.to_be_bytes();
    let mut b = full[8 - len..].to_vec();
    b[0] |= tag;
    Some(b)
}

pub fn len_from_first(b: u8) -> usize {
    1 << (b >> 6)
}

/// Decode one varint from the front of `b`: (value, bytes consumed).
pub fn decode(b: &[u8]) -> Result<(u64, usize), Truncated> {
    if b.is_empty() {
        return Err(Truncated);
    }
    let n = len_from_first(b[0]);
    if b.len() < n {
        return Err(Truncated);
    }
    let mut v = (b[0] & 0x3f) as u64;
    for x in &b[1..n] {
        v = (v << 8) | *x as u64;
    }
    Ok((v, n))
}

pub fn size(v: u64) -> usize {
    if v < 1 << 6 {
        1
    } else if v < 1 << 14 {
        2
    } else if v < 1 << 30 {
        4
    } else {
        8
    }
}
