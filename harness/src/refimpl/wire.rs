//! Online RFC 9114 checker for everything an h3 endpoint wrote (C14; always on in C01, C07, ...).
//! Works on the complete per-stream byte logs kept by simquic.

use super::frames::{self as rf, Parsed, Tail, TypeClass};
use super::qpack as rq;
use super::varint;
use crate::sim::{id_kind, NetInner};

#[derive(Debug, Clone)]
pub struct WireFinding {
    pub rule: &'static str,
    pub stream: u64,
    pub detail: String,
}

#[derive(Debug, Default, Clone)]
pub struct WireStats {
    pub streams_checked: u64,
    pub frames: u64,
    pub headers_frames: u64,
    pub data_frames: u64,
    pub empty_data_frames: u64,
    pub grease_frames: u64,
    pub goaway_frames: u64,
    pub settings_frames: u64,
    pub uni_streams: u64,
    pub grease_streams: u64,
    pub finished_streams: u64,
    pub unfinished_streams: u64,
}

#[derive(Debug, Clone, Copy, Default)]
pub struct WireOpts {
    /// WebTransport stream types (0x54 uni, 0x41 bidi signal) may appear
    pub webtransport: bool,
    /// push streams / PUSH_PROMISE are never produced by h3 (no push support)
    pub allow_push: bool,
}

/// Settings found on `side`'s control stream, if complete.
pub fn control_settings(net: &NetInner, side: usize) -> Option<Vec<(u64, u64)>> {
    for (id, s) in net.streams.iter() {
        let (init, bidi) = id_kind(*id);
        if bidi || init != side {
            continue;
        }
        let b = &s.pipe(side).sent;
        if let Ok((0, n)) = varint::decode(b) {
            let (frames, _) = rf::segment(&b[n..]);
            if let Some(f) = frames.first() {
                if let Ok(Parsed::Settings(v)) = rf::parse(f) {
                    return Some(v);
                }
            }
        }
    }
    None
}

/// GOAWAY ids found on `side`'s control stream, with the logical time each frame was completely
/// written.
pub fn control_goaways(net: &NetInner, side: usize) -> Vec<(u64, u64)> {
    let mut out = Vec::new();
    for (id, s) in net.streams.iter() {
        let (init, bidi) = id_kind(*id);
        if bidi || init != side {
            continue;
        }
        let p = s.pipe(side);
        let b = &p.sent;
        if let Ok((0, n)) = varint::decode(b) {
            let (frames, _) = rf::segment(&b[n..]);
            for f in frames {
                if let Ok(Parsed::Goaway(g)) = rf::parse(&f) {
                    let end = n + f.end();
                    let t = p
                        .write_log
                        .iter()
                        .find(|(_, off)| *off >= end)
                        .map(|(t, _)| *t)
                        .unwrap_or(u64::MAX);
                    out.push((g, t));
                }
            }
        }
    }
    out
}

/// Check every stream written by `side`.
pub fn check_output(net: &NetInner, side: usize, opts: WireOpts) -> (Vec<WireFinding>, WireStats) {
    let mut v = Vec::new();
    let mut st = WireStats::default();
    let mut controls = 0;
    let mut encoders = 0;
    let mut decoders = 0;
    for (id, s) in net.streams.iter() {
        let Some(p) = s.pipes[side].as_ref() else { continue };
        let (init, bidi) = id_kind(*id);
        st.streams_checked += 1;
        for m in &p.misuse {
            v.push(WireFinding {
                rule: "transport-misuse",
                stream: *id,
                detail: m.clone(),
            });
        }
        let explicit_fin = p.fin_sent && !p.fin_implicit;
        if explicit_fin {
            st.finished_streams += 1;
        } else {
            st.unfinished_streams += 1;
        }
        let b = &p.sent[..];
        if !bidi {
            if init != side {
                continue;
            }
            st.uni_streams += 1;
            if b.is_empty() {
                continue; // opened, nothing written (yet)
            }
            let (ty, n) = match varint::decode(b) {
                Ok(x) => x,
                Err(_) => {
                    if explicit_fin {
                        v.push(WireFinding {
                            rule: "uni-stream-finished-inside-type",
                            stream: *id,
                            detail: format!("bytes {}", crate::util::hex_short(b, 16)),
                        });
                    }
                    continue;
                }
            };
            match ty {
                0x00 => {
                    controls += 1;
                    check_control(*id, &b[n..], explicit_fin || p.reset_sent.is_some(), &mut v, &mut st);
                }
                0x01 if opts.allow_push => {}
                0x02 => encoders += 1,
                0x03 => decoders += 1,
                0x54 if opts.webtransport => {}
                t if rf::is_grease(t) => st.grease_streams += 1,
                t => v.push(WireFinding {
                    rule: "illegal-uni-stream-type",
                    stream: *id,
                    detail: format!("stream type {:#x}", t),
                }),
            }
        } else {
            // WebTransport bidi streams opened by this side start with 0x41
            if opts.webtransport && init == side {
                if let Ok((0x41, _)) = varint::decode(b) {
                    continue;
                }
            }
            check_message_stream(*id, b, explicit_fin, &mut v, &mut st);
        }
    }
    if controls > 1 {
        v.push(WireFinding {
            rule: "more-than-one-control-stream",
            stream: 0,
            detail: format!("{} control streams opened", controls),
        });
    }
    if encoders > 1 || decoders > 1 {
        v.push(WireFinding {
            rule: "more-than-one-qpack-stream",
            stream: 0,
            detail: format!("{} encoder / {} decoder streams", encoders, decoders),
        });
    }
    (v, st)
}

fn check_settings_entries(id: u64, entries: &[(u64, u64)], v: &mut Vec<WireFinding>) {
    let mut seen = Vec::new();
    for (sid, _) in entries {
        if rf::S_H2_RESERVED.contains(sid) {
            v.push(WireFinding {
                rule: "h2-reserved-setting-sent",
                stream: id,
                detail: format!("setting id {:#x}", sid),
            });
        }
        if seen.contains(sid) {
            v.push(WireFinding {
                rule: "setting-sent-twice",
                stream: id,
                detail: format!("setting id {:#x}", sid),
            });
        }
        seen.push(*sid);
    }
}

fn check_control(id: u64, b: &[u8], closed: bool, v: &mut Vec<WireFinding>, st: &mut WireStats) {
    if closed {
        v.push(WireFinding {
            rule: "control-stream-closed-by-sender",
            stream: id,
            detail: "h3 finished or reset its own control stream".into(),
        });
    }
    let (frames, _tail) = rf::segment(b);
    let mut last_goaway: Option<u64> = None;
    for (i, f) in frames.iter().enumerate() {
        st.frames += 1;
        let parsed = rf::parse(f);
        match (&parsed, i) {
            (Ok(Parsed::Settings(e)), 0) => {
                st.settings_frames += 1;
                check_settings_entries(id, e, v);
            }
            (_, 0) => v.push(WireFinding {
                rule: "control-stream-does-not-start-with-SETTINGS",
                stream: id,
                detail: format!("first frame type {:#x}", f.ty),
            }),
            (Ok(Parsed::Settings(_)), _) => v.push(WireFinding {
                rule: "second-SETTINGS-sent",
                stream: id,
                detail: format!("frame #{}", i),
            }),
            (Ok(Parsed::Goaway(g)), _) => {
                st.goaway_frames += 1;
                // RFC 9114 5.2: an endpoint MUST NOT increase the identifier; a server's
                // identifier is a client-initiated bidirectional stream id
                if let Some(prev) = last_goaway {
                    if *g > prev {
                        v.push(WireFinding {
                            rule: "goaway-id-increased",
                            stream: id,
                            detail: format!("GOAWAY({}) sent after GOAWAY({})", g, prev),
                        });
                    }
                }
                last_goaway = Some(*g);
                if id & 1 == 1 && *g % 4 != 0 {
                    v.push(WireFinding {
                        rule: "goaway-id-not-a-request-stream-id",
                        stream: id,
                        detail: format!("server sent GOAWAY({})", g),
                    });
                }
            }
            (Ok(Parsed::MaxPushId(_)), _) | (Ok(Parsed::CancelPush(_)), _) => {}
            (Ok(Parsed::Unknown(t)), _) => {
                if rf::is_grease(*t) {
                    st.grease_frames += 1;
                } else {
                    v.push(WireFinding {
                        rule: "unknown-non-grease-frame-type-sent",
                        stream: id,
                        detail: format!("type {:#x} on control stream", t),
                    });
                }
            }
            (Ok(Parsed::H2Reserved(t)), _) => v.push(WireFinding {
                rule: "h2-reserved-frame-type-sent",
                stream: id,
                detail: format!("type {:#x} on control stream", t),
            }),
            (Ok(other), _) => v.push(WireFinding {
                rule: "frame-not-allowed-on-control-stream",
                stream: id,
                detail: format!("{:?}", short(other)),
            }),
            (Err(m), _) => v.push(WireFinding {
                rule: "malformed-frame-sent",
                stream: id,
                detail: format!("type {:#x}: {:?}", f.ty, m),
            }),
        }
    }
}

fn short(p: &Parsed) -> String {
    match p {
        Parsed::Data(d) => format!("DATA({})", d.len()),
        Parsed::Headers(d) => format!("HEADERS({})", d.len()),
        other => format!("{:?}", other),
    }
}

fn check_message_stream(id: u64, b: &[u8], explicit_fin: bool, v: &mut Vec<WireFinding>, st: &mut WireStats) {
    let (frames, tail) = rf::segment(b);
    // 0 = expecting first HEADERS, 1 = body, 2 = after trailers
    let mut state = 0;
    for f in &frames {
        st.frames += 1;
        match rf::classify(f.ty) {
            TypeClass::H2Reserved => v.push(WireFinding {
                rule: "h2-reserved-frame-type-sent",
                stream: id,
                detail: format!("type {:#x}", f.ty),
            }),
            TypeClass::Unknown => {
                if rf::is_grease(f.ty) {
                    st.grease_frames += 1;
                } else {
                    v.push(WireFinding {
                        rule: "unknown-non-grease-frame-type-sent",
                        stream: id,
                        detail: format!("type {:#x}", f.ty),
                    });
                }
            }
            TypeClass::Known => match f.ty {
                rf::T_HEADERS => {
                    st.headers_frames += 1;
                    match rq::judge_stateless(&f.payload) {
                        rq::Stateless::MustReject(why) => v.push(WireFinding {
                            rule: "HEADERS-payload-not-valid-QPACK",
                            stream: id,
                            detail: format!("{}: {}", why, crate::util::hex_short(&f.payload, 32)),
                        }),
                        _ => {}
                    }
                    match state {
                        0 => state = 1,
                        1 => state = 2,
                        _ => v.push(WireFinding {
                            rule: "frame-sequence-invalid",
                            stream: id,
                            detail: "HEADERS after trailers".into(),
                        }),
                    }
                }
                rf::T_DATA => {
                    st.data_frames += 1;
                    if f.payload.is_empty() {
                        st.empty_data_frames += 1;
                    }
                    if state != 1 {
                        v.push(WireFinding {
                            rule: "frame-sequence-invalid",
                            stream: id,
                            detail: if state == 0 { "DATA before HEADERS".into() } else { "DATA after trailers".into() },
                        });
                    }
                }
                t => v.push(WireFinding {
                    rule: "frame-not-allowed-on-request-stream",
                    stream: id,
                    detail: format!("type {:#x}", t),
                }),
            },
        }
    }
    if explicit_fin && tail != Tail::Clean {
        v.push(WireFinding {
            rule: "finished-stream-ends-inside-a-frame",
            stream: id,
            detail: format!("{:?}", tail),
        });
    }
}
