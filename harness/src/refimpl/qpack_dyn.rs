//! RFC 9204 with the dynamic table (reference, independent of h3).
//!
//! * §3.2   dynamic table: FIFO, entry size = name + value + 32, capacity, eviction before insert
//! * §3.2.4-6 absolute / relative / post-base indexing (absolute indices are 0-based here, as in
//!   the RFC: the first entry ever inserted has absolute index 0)
//! * §4.3   encoder-stream instructions (parser working on a byte queue: only complete
//!   instructions are consumed, an incomplete tail stays queued)
//! * §4.4   decoder-stream instructions
//! * §4.5   encoded field sections with dynamic references: Required Insert Count
//!   reconstruction (§4.5.1.1), Base (§4.5.1.2), blocked / invalid-reference rules (§2.2.1, §2.2.3)
//!
//! The bytes are parsed with the syntactic layer of `refimpl::qpack` (prefixed integers, string
//! literals with Huffman via octets, field-line grammar) and the static table transcription in
//! `refimpl::static_table`.

use super::qpack::{int_decode, parse_section, str_decode, Field, IntErr, Line, ParseErr, StrErr};
use super::static_table::STATIC_TABLE;
use std::collections::{BTreeSet, VecDeque};

/// §3.2.1: "The size of an entry is the sum of its name's length in bytes, its value's length in
/// bytes, and 32 additional bytes."
pub fn entry_size(name: &[u8], value: &[u8]) -> u64 {
    name.len() as u64 + value.len() as u64 + 32
}

/// Values at or above this are refused by the reference (implementation limit, never reached by
/// the monitors' workloads).
const INT_LIMIT: u128 = 1 << 62;

// ---------------------------------------------------------------------------------------------
// dynamic table

#[derive(Clone, Debug)]
pub struct DynTable {
    /// live entries, oldest first; `entries[i]` has absolute index `dropped + i`
    entries: VecDeque<Field>,
    size: u64,
    capacity: u64,
    /// upper bound for `capacity` (SETTINGS_QPACK_MAX_TABLE_CAPACITY of the decoder); also the
    /// value MaxEntries is derived from (§4.5.1.1)
    max_capacity: u64,
    /// number of insertions so far == the Insert Count; the next entry gets this absolute index
    /// (§3.2.4)
    insert_count: u64,
    /// number of evictions so far == absolute index of the oldest live entry
    dropped: u64,
}

/// What one applied encoder instruction did to the table.
#[derive(Clone, Debug, PartialEq, Eq)]
pub struct Applied {
    pub kind: InstrKind,
    /// absolute index of the new entry (None for Set Dynamic Table Capacity)
    pub inserted: Option<u64>,
    /// absolute indices evicted by this instruction, oldest first
    pub evicted: Vec<u64>,
    /// absolute index of the dynamic entry this instruction referenced (name reference or
    /// duplicate source)
    pub referenced: Option<u64>,
}

#[derive(Clone, Copy, Debug, PartialEq, Eq, Hash, PartialOrd, Ord)]
pub enum InstrKind {
    SetCapacity,
    InsertStaticNameRef,
    InsertDynamicNameRef,
    InsertLiteralName,
    Duplicate,
}

impl InstrKind {
    pub fn name(self) -> &'static str {
        match self {
            InstrKind::SetCapacity => "set-capacity",
            InstrKind::InsertStaticNameRef => "insert-static-name-ref",
            InstrKind::InsertDynamicNameRef => "insert-dynamic-name-ref",
            InstrKind::InsertLiteralName => "insert-literal-name",
            InstrKind::Duplicate => "duplicate",
        }
    }
}

impl DynTable {
    /// A table whose capacity is already `capacity` (both endpoints configured out of band, as
    /// h3's own tests do) and may be changed up to `max_capacity`.
    pub fn new(max_capacity: u64, capacity: u64) -> Self {
        assert!(capacity <= max_capacity);
        DynTable {
            entries: VecDeque::new(),
            size: 0,
            capacity,
            max_capacity,
            insert_count: 0,
            dropped: 0,
        }
    }
    pub fn capacity(&self) -> u64 {
        self.capacity
    }
    pub fn max_capacity(&self) -> u64 {
        self.max_capacity
    }
    pub fn size(&self) -> u64 {
        self.size
    }
    pub fn len(&self) -> usize {
        self.entries.len()
    }
    pub fn is_empty(&self) -> bool {
        self.entries.is_empty()
    }
    pub fn insert_count(&self) -> u64 {
        self.insert_count
    }
    /// absolute index of the oldest live entry (== number of evictions so far)
    pub fn first_live(&self) -> u64 {
        self.dropped
    }
    pub fn is_live(&self, abs: u64) -> bool {
        abs >= self.dropped && abs < self.insert_count
    }
    pub fn get_abs(&self, abs: u64) -> Option<&Field> {
        if !self.is_live(abs) {
            return None;
        }
        self.entries.get((abs - self.dropped) as usize)
    }
    /// live entries, oldest first
    pub fn entries(&self) -> Vec<Field> {
        self.entries.iter().cloned().collect()
    }
    pub fn entries_iter(&self) -> impl Iterator<Item = &Field> {
        self.entries.iter()
    }

    /// §3.2.5 relative index on the *encoder stream*: 0 is the most recently inserted entry.
    fn abs_of_stream_relative(&self, rel: u64) -> Result<u64, String> {
        if rel >= self.insert_count {
            return Err(format!(
                "relative index {} with insert count {}",
                rel, self.insert_count
            ));
        }
        let abs = self.insert_count - 1 - rel;
        if abs < self.dropped {
            return Err(format!(
                "relative index {} names absolute index {} which was evicted (oldest live {})",
                rel, abs, self.dropped
            ));
        }
        Ok(abs)
    }

    fn evict_until(&mut self, limit: u64, evicted: &mut Vec<u64>) {
        while self.size > limit {
            let (n, v) = self.entries.pop_front().expect("size > 0 implies an entry");
            self.size -= entry_size(&n, &v);
            evicted.push(self.dropped);
            self.dropped += 1;
        }
    }

    /// §3.2.2: evict from the oldest end until the new entry fits, then append it. An entry
    /// larger than the capacity is an error (QPACK_ENCODER_STREAM_ERROR).
    fn insert(&mut self, name: Vec<u8>, value: Vec<u8>, evicted: &mut Vec<u64>) -> Result<u64, String> {
        let sz = entry_size(&name, &value);
        if sz > self.capacity {
            return Err(format!(
                "entry of size {} larger than the table capacity {}",
                sz, self.capacity
            ));
        }
        self.evict_until(self.capacity - sz, evicted);
        self.entries.push_back((name, value));
        self.size += sz;
        let abs = self.insert_count;
        self.insert_count += 1;
        Ok(abs)
    }

    /// Apply one encoder instruction (§4.3). Name references and duplicate sources are resolved
    /// *before* eviction (§3.2.2: "A new entry can reference an entry in the dynamic table that
    /// will be evicted when adding this new entry").
    pub fn apply(&mut self, ins: &EncInstr) -> Result<Applied, String> {
        let mut evicted = Vec::new();
        match ins {
            EncInstr::SetCapacity(c) => {
                if *c > self.max_capacity {
                    return Err(format!(
                        "capacity {} above the maximum {}",
                        c, self.max_capacity
                    ));
                }
                self.capacity = *c;
                self.evict_until(*c, &mut evicted);
                Ok(Applied {
                    kind: InstrKind::SetCapacity,
                    inserted: None,
                    evicted,
                    referenced: None,
                })
            }
            EncInstr::InsertNameRef {
                is_static: true,
                index,
                value,
            } => {
                if *index >= STATIC_TABLE.len() as u64 {
                    return Err(format!("static name index {} out of range", index));
                }
                let name = STATIC_TABLE[*index as usize].0.as_bytes().to_vec();
                let abs = self.insert(name, value.clone(), &mut evicted)?;
                Ok(Applied {
                    kind: InstrKind::InsertStaticNameRef,
                    inserted: Some(abs),
                    evicted,
                    referenced: None,
                })
            }
            EncInstr::InsertNameRef {
                is_static: false,
                index,
                value,
            } => {
                let src = self.abs_of_stream_relative(*index)?;
                let name = self.get_abs(src).expect("live").0.clone();
                let abs = self.insert(name, value.clone(), &mut evicted)?;
                Ok(Applied {
                    kind: InstrKind::InsertDynamicNameRef,
                    inserted: Some(abs),
                    evicted,
                    referenced: Some(src),
                })
            }
            EncInstr::InsertLiteral { name, value } => {
                let abs = self.insert(name.clone(), value.clone(), &mut evicted)?;
                Ok(Applied {
                    kind: InstrKind::InsertLiteralName,
                    inserted: Some(abs),
                    evicted,
                    referenced: None,
                })
            }
            EncInstr::Duplicate(index) => {
                let src = self.abs_of_stream_relative(*index)?;
                let (n, v) = self.get_abs(src).expect("live").clone();
                let abs = self.insert(n, v, &mut evicted)?;
                Ok(Applied {
                    kind: InstrKind::Duplicate,
                    inserted: Some(abs),
                    evicted,
                    referenced: Some(src),
                })
            }
        }
    }
}

// ---------------------------------------------------------------------------------------------
// §4.3 encoder instructions

#[derive(Clone, Debug, PartialEq, Eq)]
pub enum EncInstr {
    /// `001xxxxx` Set Dynamic Table Capacity
    SetCapacity(u64),
    /// `1Txxxxxx` Insert With Name Reference (T=1 static, T=0 dynamic/relative)
    InsertNameRef {
        is_static: bool,
        index: u64,
        value: Vec<u8>,
    },
    /// `01Hxxxxx` Insert With Literal Name
    InsertLiteral { name: Vec<u8>, value: Vec<u8> },
    /// `000xxxxx` Duplicate (relative index)
    Duplicate(u64),
}

/// Outcome of trying to read one instruction from the head of a byte queue.
#[derive(Clone, Debug, PartialEq, Eq)]
pub enum Parsed<T> {
    /// a complete instruction and the number of bytes it occupies
    Complete(T, usize),
    /// the queue ends inside the instruction (or is empty): wait for more bytes
    Incomplete,
    /// the bytes can never become a valid instruction
    Invalid(String),
}

fn small(v: u128, what: &str) -> Result<u64, String> {
    if v >= INT_LIMIT {
        Err(format!("{} {} beyond 2^62", what, v))
    } else {
        Ok(v as u64)
    }
}

enum Step<T> {
    Ok(T),
    More,
    Bad(String),
}

fn take_int(n: u8, b: &[u8], pos: &mut usize, what: &str) -> Step<(u8, u64)> {
    match int_decode(n, &b[*pos..]) {
        Err(IntErr::Truncated) => Step::More,
        Ok(p) => match small(p.value, what) {
            Err(e) => Step::Bad(e),
            Ok(v) => {
                *pos += p.consumed;
                Step::Ok((p.flags, v))
            }
        },
    }
}

fn take_str(n: u8, b: &[u8], pos: &mut usize, what: &str) -> Step<Vec<u8>> {
    match str_decode(n, &b[*pos..]) {
        Err(StrErr::Truncated) => Step::More,
        Err(StrErr::LenTooBig) => Step::Bad(format!("{} length beyond 2^62", what)),
        Err(StrErr::Huffman(w)) => Step::Bad(format!("{}: invalid Huffman string ({})", what, w)),
        Ok(s) => {
            *pos += s.consumed;
            Step::Ok(s.value)
        }
    }
}

macro_rules! step {
    ($e:expr) => {
        match $e {
            Step::Ok(v) => v,
            Step::More => return Parsed::Incomplete,
            Step::Bad(e) => return Parsed::Invalid(e),
        }
    };
}

/// Read one encoder instruction (§4.3) from the head of `b`.
pub fn parse_enc_instr(b: &[u8]) -> Parsed<EncInstr> {
    if b.is_empty() {
        return Parsed::Incomplete;
    }
    let f = b[0];
    let mut pos = 0usize;
    if f & 0x80 != 0 {
        // 1 T NameIndex(6+) ; H ValueLength(7+) ; value
        let (flags, index) = step!(take_int(6, b, &mut pos, "name index"));
        let value = step!(take_str(8, b, &mut pos, "value"));
        Parsed::Complete(
            EncInstr::InsertNameRef {
                is_static: flags & 1 == 1,
                index,
                value,
            },
            pos,
        )
    } else if f & 0x40 != 0 {
        // 0 1 H NameLength(5+) ; name ; H ValueLength(7+) ; value
        let name = step!(take_str(6, b, &mut pos, "name"));
        let value = step!(take_str(8, b, &mut pos, "value"));
        Parsed::Complete(EncInstr::InsertLiteral { name, value }, pos)
    } else if f & 0x20 != 0 {
        // 0 0 1 Capacity(5+)
        let (_, c) = step!(take_int(5, b, &mut pos, "capacity"));
        Parsed::Complete(EncInstr::SetCapacity(c), pos)
    } else {
        // 0 0 0 Index(5+)
        let (_, i) = step!(take_int(5, b, &mut pos, "duplicate index"));
        Parsed::Complete(EncInstr::Duplicate(i), pos)
    }
}

/// The receiving end of an encoder stream: a byte queue in front of a table. Complete
/// instructions are applied in order; an incomplete tail stays queued until more bytes arrive.
#[derive(Clone, Debug, Default)]
pub struct EncStreamReader {
    queue: Vec<u8>,
    /// bytes consumed (as complete instructions) since the start of the stream
    pub consumed: u64,
    /// instructions applied since the start of the stream
    pub instructions: u64,
}

impl EncStreamReader {
    pub fn new() -> Self {
        Self::default()
    }
    pub fn queued(&self) -> usize {
        self.queue.len()
    }
    /// Append `bytes` and apply every complete instruction now available to `table`.
    /// `on_applied(table, applied, stream_offset_after_instruction)` is called after each one.
    /// Returns the number of instructions applied, or the reason the stream is invalid.
    pub fn feed(
        &mut self,
        bytes: &[u8],
        table: &mut DynTable,
        mut on_applied: impl FnMut(&DynTable, &EncInstr, &Applied, u64),
    ) -> Result<usize, String> {
        self.queue.extend_from_slice(bytes);
        let mut pos = 0usize;
        let mut n = 0usize;
        let res = loop {
            match parse_enc_instr(&self.queue[pos..]) {
                Parsed::Incomplete => break Ok(n),
                Parsed::Invalid(e) => break Err(e),
                Parsed::Complete(ins, used) => match table.apply(&ins) {
                    Err(e) => break Err(e),
                    Ok(applied) => {
                        pos += used;
                        n += 1;
                        self.consumed += used as u64;
                        self.instructions += 1;
                        on_applied(table, &ins, &applied, self.consumed);
                    }
                },
            }
        };
        self.queue.drain(..pos);
        res
    }
}

// ---------------------------------------------------------------------------------------------
// §4.4 decoder instructions

#[derive(Clone, Copy, Debug, PartialEq, Eq)]
pub enum DecInstr {
    /// `1xxxxxxx` Section Acknowledgment (stream id)
    SectionAck(u64),
    /// `01xxxxxx` Stream Cancellation (stream id)
    StreamCancel(u64),
    /// `00xxxxxx` Insert Count Increment
    InsertCountIncrement(u64),
}

pub fn parse_dec_instr(b: &[u8]) -> Parsed<DecInstr> {
    if b.is_empty() {
        return Parsed::Incomplete;
    }
    let f = b[0];
    let mut pos = 0usize;
    if f & 0x80 != 0 {
        let (_, s) = step!(take_int(7, b, &mut pos, "stream id"));
        Parsed::Complete(DecInstr::SectionAck(s), pos)
    } else if f & 0x40 != 0 {
        let (_, s) = step!(take_int(6, b, &mut pos, "stream id"));
        Parsed::Complete(DecInstr::StreamCancel(s), pos)
    } else {
        let (_, n) = step!(take_int(6, b, &mut pos, "increment"));
        Parsed::Complete(DecInstr::InsertCountIncrement(n), pos)
    }
}

/// Byte queue for the decoder stream; yields complete instructions only.
#[derive(Clone, Debug, Default)]
pub struct DecStreamReader {
    queue: Vec<u8>,
    pub consumed: u64,
}

impl DecStreamReader {
    pub fn new() -> Self {
        Self::default()
    }
    pub fn queued(&self) -> usize {
        self.queue.len()
    }
    pub fn feed(&mut self, bytes: &[u8]) -> Result<Vec<DecInstr>, String> {
        self.queue.extend_from_slice(bytes);
        let mut pos = 0usize;
        let mut out = Vec::new();
        let res = loop {
            match parse_dec_instr(&self.queue[pos..]) {
                Parsed::Incomplete => break Ok(()),
                Parsed::Invalid(e) => break Err(e),
                Parsed::Complete(i, used) => {
                    pos += used;
                    self.consumed += used as u64;
                    out.push(i);
                }
            }
        };
        self.queue.drain(..pos);
        res.map(|_| out)
    }
}

// ---------------------------------------------------------------------------------------------
// §4.5 field sections with dynamic references

/// §4.5.1.1: MaxEntries = floor(MaxTableCapacity / 32)
pub fn max_entries(max_capacity: u64) -> u64 {
    max_capacity / 32
}

/// §4.5.1.1 encoder side: EncInsertCount = 0 if ReqInsertCount == 0 else
/// (ReqInsertCount mod (2 * MaxEntries)) + 1.
pub fn encode_ric(ric: u64, max_capacity: u64) -> u64 {
    if ric == 0 {
        0
    } else {
        ric % (2 * max_entries(max_capacity)) + 1
    }
}

/// §4.5.1.1 decoder side: reconstruct the Required Insert Count from its encoded form, the
/// maximum table capacity and the decoder's own insert count.
pub fn reconstruct_ric(enc: u128, max_capacity: u64, total_inserts: u64) -> Result<u64, String> {
    if enc == 0 {
        return Ok(0);
    }
    let max_entries = max_entries(max_capacity) as u128;
    let full_range = 2 * max_entries;
    if enc > full_range {
        return Err(format!(
            "encoded insert count {} above FullRange {}",
            enc, full_range
        ));
    }
    let total = total_inserts as u128;
    let max_value = total + max_entries;
    let max_wrapped = (max_value / full_range) * full_range;
    let mut ric = max_wrapped + enc - 1;
    if ric > max_value {
        if ric <= full_range {
            return Err(format!(
                "encoded insert count {} cannot be reached with {} inserts",
                enc, total
            ));
        }
        ric -= full_range;
    }
    if ric == 0 {
        return Err("required insert count 0 not encoded as 0".into());
    }
    small(ric, "required insert count")
}

/// One field line with its table reference made absolute.
#[derive(Clone, Debug, PartialEq, Eq)]
pub enum RLine {
    Static(u64),
    StaticName { idx: u64, value: Vec<u8> },
    /// indexed line naming dynamic entry `abs` (relative to Base, or post-Base)
    Dyn { abs: u64, post_base: bool },
    /// literal value with the name of dynamic entry `abs`
    DynName { abs: u64, post_base: bool, value: Vec<u8> },
    Literal { name: Vec<u8>, value: Vec<u8> },
}

/// The index arithmetic of a section, independent of table *content*.
#[derive(Clone, Debug, PartialEq, Eq)]
pub struct SectionInfo {
    pub ric: u64,
    pub base: u64,
    /// Sign bit of the prefix (Base < Required Insert Count)
    pub sign: bool,
    pub lines: Vec<RLine>,
    /// absolute indices of every dynamic entry a field line references
    pub refs: BTreeSet<u64>,
}

impl SectionInfo {
    /// §2.1.2: the Required Insert Count a conformant encoder declares for these references
    pub fn minimal_ric(&self) -> u64 {
        self.refs.iter().next_back().map(|m| m + 1).unwrap_or(0)
    }
}

fn parse_err(e: ParseErr) -> String {
    match e {
        ParseErr::Truncated => "truncated".into(),
        ParseErr::Huffman(w) => format!("huffman:{}", w),
        ParseErr::LenTooBig => "oversized-string-length".into(),
    }
}

/// Parse `block` and make every dynamic reference absolute, given the maximum table capacity and
/// the insert count of whoever looks at it (needed only to undo the modulo of §4.5.1.1).
/// Does not look at table content and does not decide "blocked".
pub fn resolve_section(block: &[u8], max_capacity: u64, total_inserts: u64) -> Result<SectionInfo, String> {
    let s = parse_section(block).map_err(parse_err)?;
    let ric = reconstruct_ric(s.enc_ric, max_capacity, total_inserts)?;
    resolve_lines(&s.lines, ric, s.sign, s.delta_base)
}

fn resolve_lines(lines: &[Line], ric: u64, sign: bool, delta_base: u128) -> Result<SectionInfo, String> {
    // §4.5.1.2
    let delta = small(delta_base, "delta base")?;
    let base = if !sign {
        ric + delta
    } else {
        if ric <= delta {
            return Err(format!(
                "sign bit set with required insert count {} <= delta base {}",
                ric, delta
            ));
        }
        ric - delta - 1
    };
    let mut out = Vec::with_capacity(lines.len());
    let mut refs = BTreeSet::new();
    // §3.2.5: in a field section relative index 0 is the entry with absolute index Base - 1
    let rel = |idx: u128| -> Result<u64, String> {
        let idx = small(idx, "relative index")?;
        if idx >= base {
            return Err(format!("relative index {} with base {}", idx, base));
        }
        Ok(base - 1 - idx)
    };
    // §3.2.6: post-base index 0 is the entry with absolute index Base
    let post = |idx: u128| -> Result<u64, String> {
        let idx = small(idx, "post-base index")?;
        Ok(base + idx)
    };
    for l in lines {
        match l {
            Line::IndexedStatic(i) => {
                if *i >= STATIC_TABLE.len() as u128 {
                    return Err(format!("static index {} out of range", i));
                }
                out.push(RLine::Static(*i as u64));
            }
            Line::LitNameRefStatic { idx, value } => {
                if *idx >= STATIC_TABLE.len() as u128 {
                    return Err(format!("static name index {} out of range", idx));
                }
                out.push(RLine::StaticName {
                    idx: *idx as u64,
                    value: value.clone(),
                });
            }
            Line::Literal { name, value } => out.push(RLine::Literal {
                name: name.clone(),
                value: value.clone(),
            }),
            Line::IndexedDynamic(i) => {
                let abs = rel(*i)?;
                refs.insert(abs);
                out.push(RLine::Dyn { abs, post_base: false });
            }
            Line::PostBaseIndexed(i) => {
                let abs = post(*i)?;
                refs.insert(abs);
                out.push(RLine::Dyn { abs, post_base: true });
            }
            Line::LitNameRefDynamic { idx, value } => {
                let abs = rel(*idx)?;
                refs.insert(abs);
                out.push(RLine::DynName {
                    abs,
                    post_base: false,
                    value: value.clone(),
                });
            }
            Line::LitPostBaseNameRef { idx, value } => {
                let abs = post(*idx)?;
                refs.insert(abs);
                out.push(RLine::DynName {
                    abs,
                    post_base: true,
                    value: value.clone(),
                });
            }
        }
    }
    Ok(SectionInfo {
        ric,
        base,
        sign,
        lines: out,
        refs,
    })
}

#[derive(Clone, Debug, PartialEq, Eq)]
pub enum SectionOutcome {
    /// §2.2.1: Required Insert Count greater than the decoder's insert count
    Blocked { ric: u64 },
    /// the section can never be decoded (QPACK_DECOMPRESSION_FAILED)
    Error(String),
    Fields {
        fields: Vec<Field>,
        info: SectionInfo,
        /// §2.2.1: the declared Required Insert Count is larger than the references need; a
        /// decoder MAY treat this as an error
        ric_larger_than_needed: bool,
    },
}

/// What an RFC 9204 decoder whose table is `table` does with `block`.
pub fn decode_section(table: &DynTable, block: &[u8]) -> SectionOutcome {
    let s = match parse_section(block) {
        Ok(s) => s,
        Err(e) => return SectionOutcome::Error(parse_err(e)),
    };
    let ric = match reconstruct_ric(s.enc_ric, table.max_capacity(), table.insert_count()) {
        Ok(r) => r,
        Err(e) => return SectionOutcome::Error(e),
    };
    if ric > table.insert_count() {
        return SectionOutcome::Blocked { ric };
    }
    let info = match resolve_lines(&s.lines, ric, s.sign, s.delta_base) {
        Ok(i) => i,
        Err(e) => return SectionOutcome::Error(e),
    };
    let mut fields = Vec::with_capacity(info.lines.len());
    let lookup = |abs: u64| -> Result<&Field, String> {
        // §2.2.3 invalid references
        if abs >= ric {
            return Err(format!(
                "reference to absolute index {} >= required insert count {}",
                abs, ric
            ));
        }
        table.get_abs(abs).ok_or_else(|| {
            format!(
                "reference to evicted entry {} (oldest live {})",
                abs,
                table.first_live()
            )
        })
    };
    for l in &info.lines {
        match l {
            RLine::Static(i) => {
                let (n, v) = STATIC_TABLE[*i as usize];
                fields.push((n.as_bytes().to_vec(), v.as_bytes().to_vec()));
            }
            RLine::StaticName { idx, value } => {
                let (n, _) = STATIC_TABLE[*idx as usize];
                fields.push((n.as_bytes().to_vec(), value.clone()));
            }
            RLine::Literal { name, value } => fields.push((name.clone(), value.clone())),
            RLine::Dyn { abs, .. } => match lookup(*abs) {
                Ok(f) => fields.push(f.clone()),
                Err(e) => return SectionOutcome::Error(e),
            },
            RLine::DynName { abs, value, .. } => match lookup(*abs) {
                Ok(f) => fields.push((f.0.clone(), value.clone())),
                Err(e) => return SectionOutcome::Error(e),
            },
        }
    }
    let ric_larger_than_needed = info.minimal_ric() < ric;
    SectionOutcome::Fields {
        fields,
        info,
        ric_larger_than_needed,
    }
}

// ---------------------------------------------------------------------------------------------
// self-checks of the reference against the worked examples of RFC 9204 Appendix B (from memory:
// only the parts that are certain — instruction layouts and table arithmetic)

#[cfg(test)]
mod tests {
    use super::*;

    #[test]
    fn ric_roundtrip_all_small() {
        for cap in [32u64, 40, 64, 100, 256, 4096] {
            let m = max_entries(cap);
            for total in 0..(6 * m + 5) {
                let lo = (total + 1).saturating_sub(m).max(1);
                for ric in lo..=(total + m) {
                    let enc = encode_ric(ric, cap);
                    assert_eq!(reconstruct_ric(enc as u128, cap, total), Ok(ric), "cap {} total {} ric {}", cap, total, ric);
                }
            }
        }
    }

    /// RFC 9204 Appendix B.2 - B.4 (capacity 220): encoder stream, sections on streams 4 and 8
    #[test]
    fn rfc9204_appendix_b() {
        let mut t = DynTable::new(220, 0);
        let mut r = EncStreamReader::new();
        let mut kinds = Vec::new();
        // B.2: Set Dynamic Table Capacity 220; two inserts with static name reference
        let mut es = crate::util::unhex("3fbd01 c00f7777772e6578616d706c652e636f6d c10c2f73616d706c652f70617468");
        // cut inside the last instruction: nothing of it may be applied
        let tail = es.split_off(es.len() - 3);
        assert_eq!(r.feed(&es, &mut t, |_, _, a, _| kinds.push(a.kind)), Ok(2));
        assert_eq!(r.feed(&tail, &mut t, |_, _, a, _| kinds.push(a.kind)), Ok(1));
        assert_eq!(kinds, vec![InstrKind::SetCapacity, InstrKind::InsertStaticNameRef, InstrKind::InsertStaticNameRef]);
        assert_eq!(t.size(), 106);
        let sec = crate::util::unhex("0381 10 11");
        match decode_section(&t, &sec) {
            SectionOutcome::Fields { fields, info, ric_larger_than_needed } => {
                assert_eq!(info.ric, 2);
                assert_eq!(info.base, 0);
                assert!(!ric_larger_than_needed);
                assert_eq!(fields, vec![(b":authority".to_vec(), b"www.example.com".to_vec()), (b":path".to_vec(), b"/sample/path".to_vec())]);
            }
            o => panic!("{:?}", o),
        }
        // a decoder that has not seen the inserts is blocked
        assert_eq!(decode_section(&DynTable::new(220, 220), &sec), SectionOutcome::Blocked { ric: 2 });
        assert_eq!(parse_dec_instr(&[0x84]), Parsed::Complete(DecInstr::SectionAck(4), 1));
        // B.3: Insert With Literal Name custom-key: custom-value ; decoder answers Increment 1
        let es = crate::util::unhex("4a637573746f6d2d6b65790c637573746f6d2d76616c7565");
        assert_eq!(r.feed(&es, &mut t, |_, _, _, _| {}), Ok(1));
        assert_eq!(t.size(), 160);
        assert_eq!(parse_dec_instr(&[0x01]), Parsed::Complete(DecInstr::InsertCountIncrement(1), 1));
        // B.4: Duplicate relative index 2 (:authority www.example.com)
        assert_eq!(r.feed(&[0x02], &mut t, |_, _, a, _| assert_eq!(a.referenced, Some(0))), Ok(1));
        assert_eq!(t.size(), 217);
        match decode_section(&t, &crate::util::unhex("0500 80 c1 81")) {
            SectionOutcome::Fields { fields, info, .. } => {
                assert_eq!((info.ric, info.base), (4, 4));
                assert_eq!(info.refs.iter().cloned().collect::<Vec<_>>(), vec![2, 3]);
                assert_eq!(fields, vec![(b":authority".to_vec(), b"www.example.com".to_vec()), (b":path".to_vec(), b"/".to_vec()), (b"custom-key".to_vec(), b"custom-value".to_vec())]);
            }
            o => panic!("{:?}", o),
        }
        assert_eq!(parse_dec_instr(&[0x48]), Parsed::Complete(DecInstr::StreamCancel(8), 1));
        // B.5: custom-key: custom-value2 with dynamic name reference (relative 0) evicts entry 0
        let es = crate::util::unhex("810d637573746f6d2d76616c756532");
        let mut ev = Vec::new();
        assert_eq!(r.feed(&es, &mut t, |_, _, a, _| ev = a.evicted.clone()), Ok(1));
        assert_eq!(ev, vec![0]);
        assert_eq!(t.size(), 215);
    }

    #[test]
    fn table_fifo() {
        let mut t = DynTable::new(100, 100);
        let a = t.apply(&EncInstr::InsertLiteral { name: b"a".to_vec(), value: b"1".to_vec() }).unwrap();
        assert_eq!(a.inserted, Some(0));
        let b = t.apply(&EncInstr::InsertLiteral { name: b"b".to_vec(), value: b"2".to_vec() }).unwrap();
        assert_eq!(b.inserted, Some(1));
        assert_eq!(t.size(), 68);
        let c = t.apply(&EncInstr::Duplicate(1)).unwrap();
        assert_eq!(c.evicted, vec![0]);
        assert_eq!(c.referenced, Some(0));
        assert_eq!(t.entries(), vec![(b"b".to_vec(), b"2".to_vec()), (b"a".to_vec(), b"1".to_vec())]);
    }
}
