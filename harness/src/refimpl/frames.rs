//! RFC 9114 §7 frame layer (reference): segmentation of a stream's bytes into
//! type-length-payload frames, fixed-field checks, classification of types.

use super::varint;

pub const T_DATA: u64 = 0x0;
pub const T_HEADERS: u64 = 0x1;
pub const T_CANCEL_PUSH: u64 = 0x3;
pub const T_SETTINGS: u64 = 0x4;
pub const T_PUSH_PROMISE: u64 = 0x5;
pub const T_GOAWAY: u64 = 0x7;
pub const T_MAX_PUSH_ID: u64 = 0xd;
pub const T_WT_BIDI: u64 = 0x41;
pub const H2_RESERVED: [u64; 4] = [0x2, 0x6, 0x8, 0x9];

// error codes
pub const H3_NO_ERROR: u64 = 0x100;
pub const H3_GENERAL_PROTOCOL_ERROR: u64 = 0x101;
pub const H3_INTERNAL_ERROR: u64 = 0x102;
pub const H3_STREAM_CREATION_ERROR: u64 = 0x103;
pub const H3_CLOSED_CRITICAL_STREAM: u64 = 0x104;
pub const H3_FRAME_UNEXPECTED: u64 = 0x105;
pub const H3_FRAME_ERROR: u64 = 0x106;
pub const H3_EXCESSIVE_LOAD: u64 = 0x107;
pub const H3_ID_ERROR: u64 = 0x108;
pub const H3_SETTINGS_ERROR: u64 = 0x109;
pub const H3_MISSING_SETTINGS: u64 = 0x10a;
pub const H3_REQUEST_REJECTED: u64 = 0x10b;
pub const H3_REQUEST_CANCELLED: u64 = 0x10c;
pub const H3_REQUEST_INCOMPLETE: u64 = 0x10d;
pub const H3_MESSAGE_ERROR: u64 = 0x10e;
pub const H3_CONNECT_ERROR: u64 = 0x10f;
pub const H3_VERSION_FALLBACK: u64 = 0x110;
pub const QPACK_DECOMPRESSION_FAILED: u64 = 0x200;
pub const H3_DATAGRAM_ERROR: u64 = 0x33;

// settings ids
pub const S_QPACK_MAX_TABLE_CAPACITY: u64 = 0x1;
pub const S_MAX_FIELD_SECTION_SIZE: u64 = 0x6;
pub const S_QPACK_BLOCKED_STREAMS: u64 = 0x7;
pub const S_ENABLE_CONNECT_PROTOCOL: u64 = 0x8;
pub const S_H3_DATAGRAM: u64 = 0x33;
pub const S_ENABLE_WEBTRANSPORT: u64 = 0x2b603742;
pub const S_WEBTRANSPORT_MAX_SESSIONS: u64 = 0x2b603743;
pub const S_H2_RESERVED: [u64; 5] = [0x0, 0x2, 0x3, 0x4, 0x5];

pub fn is_grease(v: u64) -> bool {
    v >= 0x21 && (v - 0x21) % 0x1f == 0
}

#[derive(Debug, Clone, Copy, PartialEq, Eq)]
pub enum TypeClass {
    Known,
    H2Reserved,
    /// includes grease
    Unknown,
}

/// Frame types no HTTP/3 document of h3's scope defines: small ones next to the defined and the
/// HTTP/2-reserved values (0xa ALTSVC, 0xc ORIGIN are real extension frames), grease forms, large ones.
pub const UNKNOWN_TYPES: [u64; 14] = [0x0a, 0x0b, 0x0c, 0x0e, 0x0f, 0x10, 0x1f, 0x20, 0x22, 0x3f, 0x40, 0x42, 0x2a2a, (1 << 62) - 2];

thread_local! {
    static UNKNOWN_SALT: std::cell::Cell<u64> = const { std::cell::Cell::new(0) };
}

/// Per-case choice of the "unknown" frame types the scripted peers use (set from the case seed).
pub fn set_unknown_salt(salt: u64) {
    UNKNOWN_SALT.with(|s| s.set(salt));
}

/// The k-th unknown frame type of the current case.
pub fn unknown_type(k: u64) -> u64 {
    let salt = UNKNOWN_SALT.with(|s| s.get());
    UNKNOWN_TYPES[(salt.wrapping_add(k.wrapping_mul(5)) % UNKNOWN_TYPES.len() as u64) as usize]
}

pub fn classify(ty: u64) -> TypeClass {
    match ty {
        T_DATA | T_HEADERS | T_CANCEL_PUSH | T_SETTINGS | T_PUSH_PROMISE | T_GOAWAY
        | T_MAX_PUSH_ID => TypeClass::Known,
        0x2 | 0x6 | 0x8 | 0x9 => TypeClass::H2Reserved,
        _ => TypeClass::Unknown,
    }
}

/// One complete type-length-payload unit.
#[derive(Debug, Clone, PartialEq, Eq)]
pub struct RawFrame {
    pub ty: u64,
    pub start: usize,
    /// offset of the first payload byte
    pub payload_start: usize,
    pub payload: Vec<u8>,
}

impl RawFrame {
    pub fn end(&self) -> usize {
        self.payload_start + self.payload.len()
    }
}

#[derive(Debug, Clone, PartialEq, Eq)]
pub enum Tail {
    /// stream bytes end exactly on a frame boundary
    Clean,
    /// bytes end inside the type or length varint
    PartialHeader { start: usize },
    /// header complete, payload incomplete
    PartialPayload {
        start: usize,
        ty: u64,
        payload_start: usize,
        declared: u64,
        have: usize,
    },
}

/// Segment `bytes` into complete frames plus a description of the incomplete tail.
pub fn segment(bytes: &[u8]) -> (Vec<RawFrame>, Tail) {
    let mut out = Vec::new();
    let mut pos = 0usize;
    loop {
        if pos == bytes.len() {
            return (out, Tail::Clean);
        }
        let start = pos;
        let (ty, n1) = match varint::decode(&bytes[pos..]) {
            Ok(x) => x,
            Err(_) => return (out, Tail::PartialHeader { start }),
        };
        let (len, n2) = match varint::decode(&bytes[pos + n1..]) {
            Ok(x) => x,
            Err(_) => return (out, Tail::PartialHeader { start }),
        };
        let payload_start = pos + n1 + n2;
        let have = bytes.len() - payload_start;
        if (have as u64) < len {
            return (
                out,
                Tail::PartialPayload {
                    start,
                    ty,
                    payload_start,
                    declared: len,
                    have,
                },
            );
        }
        let len = len as usize;
        out.push(RawFrame {
            ty,
            start,
            payload_start,
            payload: bytes[payload_start..payload_start + len].to_vec(),
        });
        pos = payload_start + len;
    }
}

/// Parsed content of a known frame.
#[derive(Debug, Clone, PartialEq, Eq)]
pub enum Parsed {
    Data(Vec<u8>),
    Headers(Vec<u8>),
    CancelPush(u64),
    Settings(Vec<(u64, u64)>),
    PushPromise { id: u64, block: Vec<u8> },
    Goaway(u64),
    MaxPushId(u64),
    H2Reserved(u64),
    Unknown(u64),
}

#[derive(Debug, Clone, Copy, PartialEq, Eq)]
pub enum Malformed {
    /// payload ends before the identified fields do
    TooShort,
    /// payload has bytes after the identified fields
    TooLong,
}

/// RFC 9114 §7.1 fixed-field check: "A frame payload that contains additional bytes after the
/// identified fields or a frame payload that terminates before the end of the identified fields
/// MUST be treated as a connection error of type H3_FRAME_ERROR."
pub fn parse(f: &RawFrame) -> Result<Parsed, Malformed> {
    let p = &f.payload[..];
    let one_varint = |p: &[u8]| -> Result<u64, Malformed> {
        match varint::decode(p) {
            Err(_) => Err(Malformed::TooShort),
            Ok((v, n)) => {
                if n == p.len() {
                    Ok(v)
                } else {
                    Err(Malformed::TooLong)
                }
            }
        }
    };
    match f.ty {
        T_DATA => Ok(Parsed::Data(p.to_vec())),
        T_HEADERS => Ok(Parsed::Headers(p.to_vec())),
        T_CANCEL_PUSH => one_varint(p).map(Parsed::CancelPush),
        T_GOAWAY => one_varint(p).map(Parsed::Goaway),
        T_MAX_PUSH_ID => one_varint(p).map(Parsed::MaxPushId),
        T_PUSH_PROMISE => match varint::decode(p) {
            Err(_) => Err(Malformed::TooShort),
            Ok((id, n)) => Ok(Parsed::PushPromise {
                id,
                block: p[n..].to_vec(),
            }),
        },
        T_SETTINGS => {
            let mut v = Vec::new();
            let mut pos = 0;
            while pos < p.len() {
                let (id, n1) = varint::decode(&p[pos..]).map_err(|_| Malformed::TooShort)?;
                let (val, n2) =
                    varint::decode(&p[pos + n1..]).map_err(|_| Malformed::TooShort)?;
                v.push((id, val));
                pos += n1 + n2;
            }
            Ok(Parsed::Settings(v))
        }
        t if H2_RESERVED.contains(&t) => Ok(Parsed::H2Reserved(t)),
        t => Ok(Parsed::Unknown(t)),
    }
}

// ---------------------------------------------------------------------------------------------
// writers (for raw peers and expected-wire computations)

pub fn frame(ty: u64, payload: &[u8]) -> Vec<u8> {
    let mut v = Vec::with_capacity(payload.len() + 16);
    varint::put(&mut v, ty);
    varint::put(&mut v, payload.len() as u64);
    v.extend_from_slice(payload);
    v
}

/// Frame with explicit varint forms for type and length and an explicitly declared length
/// (which may differ from the payload actually appended).
pub fn frame_forms(
    ty: u64,
    ty_form: usize,
    declared_len: u64,
    len_form: usize,
    payload: &[u8],
) -> Option<Vec<u8>> {
    let mut v = varint::encode_form(ty, ty_form)?;
    v.extend(varint::encode_form(declared_len, len_form)?);
    v.extend_from_slice(payload);
    Some(v)
}

pub fn varint_frame(ty: u64, value: u64) -> Vec<u8> {
    frame(ty, &varint::encode(value).unwrap())
}

pub fn settings_payload(entries: &[(u64, u64)]) -> Vec<u8> {
    let mut p = Vec::new();
    for (id, val) in entries {
        varint::put(&mut p, *id);
        varint::put(&mut p, *val);
    }
    p
}

pub fn settings_frame(entries: &[(u64, u64)]) -> Vec<u8> {
    frame(T_SETTINGS, &settings_payload(entries))
}

// ---------------------------------------------------------------------------------------------
// SETTINGS model

#[derive(Debug, Clone, PartialEq, Eq)]
pub enum SettingsVerdict {
    /// applied values for the known ids (absent => default)
    Ok(Vec<(u64, u64)>),
    /// H3_SETTINGS_ERROR: repeated known id or HTTP/2-reserved id
    SettingsError(&'static str),
    /// a repeated *unknown* id: RFC 9114 §7.2.4 says MUST NOT occur twice and "MAY" be treated as
    /// H3_SETTINGS_ERROR - either outcome is acceptable
    DontCare,
}

pub const KNOWN_SETTINGS: [u64; 7] = [
    S_QPACK_MAX_TABLE_CAPACITY,
    S_MAX_FIELD_SECTION_SIZE,
    S_QPACK_BLOCKED_STREAMS,
    S_ENABLE_CONNECT_PROTOCOL,
    S_H3_DATAGRAM,
    S_ENABLE_WEBTRANSPORT,
    S_WEBTRANSPORT_MAX_SESSIONS,
];

pub fn judge_settings(entries: &[(u64, u64)]) -> SettingsVerdict {
    let mut seen: Vec<u64> = Vec::new();
    let mut dup_unknown = false;
    for (id, _) in entries {
        if S_H2_RESERVED.contains(id) {
            return SettingsVerdict::SettingsError("reserved id");
        }
        if seen.contains(id) {
            if KNOWN_SETTINGS.contains(id) {
                return SettingsVerdict::SettingsError("repeated known id");
            }
            dup_unknown = true;
        }
        seen.push(*id);
    }
    if dup_unknown {
        return SettingsVerdict::DontCare;
    }
    SettingsVerdict::Ok(
        entries
            .iter()
            .filter(|(id, _)| KNOWN_SETTINGS.contains(id))
            .cloned()
            .collect(),
    )
}
