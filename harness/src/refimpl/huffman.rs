//! RFC 7541 §5.2 Huffman coding, delegated to `octets` (independent of h3's tables).

/// Strict decode: `None` when the payload violates RFC 7541 §5.2 (padding longer than 7 bits,
/// padding not a prefix of EOS, EOS symbol inside the string).
pub fn decode(payload: &[u8]) -> Option<Vec<u8>> {
    let mut o = octets::Octets::with_slice(payload);
    o.get_huffman_decoded().ok()
}

pub fn encode(data: &[u8]) -> Vec<u8> {
    let len = octets::huffman_encoding_len::<false>(data).expect("huffman len");
    let mut buf = vec![0u8; len];
    {
        let mut o = octets::OctetsMut::with_slice(&mut buf);
        o.put_huffman_encoded::<false>(data).expect("huffman encode");
    }
    buf
}

pub fn encoded_len(data: &[u8]) -> usize {
    octets::huffman_encoding_len::<false>(data).expect("huffman len")
}
