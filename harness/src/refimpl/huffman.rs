//! RFC 7541 §5.2 Huffman coding, delegated to `octets` (independent of h3's tables).

/// Strict decode: `None` when the payload violates RFC 7541 §5.2 (padding longer than 7 bits,
/// padding not a prefix of EOS, EOS symbol inside the string).
pub fn decode(payload: &[u8]) -> Option<Vec<u8>> {
    let mut o = octets::Octets::with_slice(payload);
    o.get_huffman_decoded().ok()
}

pub fn encode(data: &[u8]) -> Vec<u8> {
    // longest code is 30 bits: 4 bytes per symbol is always enough
    let mut buf = vec![0u8; data.len() * 4 + 8];
    let off = {
        let mut o = octets::OctetsMut::with_slice(&mut buf);
        o.put_huffman_encoded::<false>(data).expect("huffman encode");
        o.off()
    };
    buf.truncate(off);
    buf
}

pub fn encoded_len(data: &[u8]) -> usize {
    encode(data).len()
}

// ---------------------------------------------------------------------------------------------
// Bit-level view, derived from the octets *encoder* at run time (never from h3): the code of
// every symbol, and a greedy classifier telling *why* a payload is invalid.

#[derive(Default)]
pub struct BitWriter {
    pub out: Vec<u8>,
    pub nbits: u32,
}
impl BitWriter {
    pub fn put(&mut self, bits: u32, len: u32) {
        for i in (0..len).rev() {
            let bit = ((bits >> i) & 1) as u8;
            if self.nbits % 8 == 0 {
                self.out.push(0);
            }
            let last = self.out.len() - 1;
            self.out[last] |= bit << (7 - self.nbits % 8);
            self.nbits += 1;
        }
    }
    pub fn finish_ones(mut self) -> Vec<u8> {
        while self.nbits % 8 != 0 {
            self.put(1, 1);
        }
        self.out
    }
}

fn derive_code(sym: u8) -> (u32, u32) {
    let one = encode(&[sym]);
    let two = encode(&[sym, sym]);
    let total = one.len() as u32 * 8;
    for l in 5..=30u32 {
        if l > total || total - l >= 8 {
            continue;
        }
        let mut bits = 0u32;
        for i in 0..l {
            let bit = (one[(i / 8) as usize] >> (7 - i % 8)) & 1;
            bits = (bits << 1) | bit as u32;
        }
        let mut w = BitWriter::default();
        w.put(bits, l);
        if w.finish_ones() != one {
            continue;
        }
        let mut w = BitWriter::default();
        w.put(bits, l);
        w.put(bits, l);
        if w.finish_ones() == two {
            return (bits, l);
        }
    }
    panic!("cannot derive Huffman code of symbol {}", sym);
}

/// (code bits, length) for every symbol 0..=255.
pub fn code_table() -> &'static [(u32, u32); 256] {
    static T: std::sync::OnceLock<[(u32, u32); 256]> = std::sync::OnceLock::new();
    T.get_or_init(|| {
        let mut t = [(0u32, 0u32); 256];
        for (s, e) in t.iter_mut().enumerate() {
            *e = derive_code(s as u8);
        }
        t
    })
}

#[derive(Debug, Clone, PartialEq, Eq)]
pub enum Validity {
    Valid(Vec<u8>),
    /// all-ones padding of 8..=29 bits
    OverlongPadding(usize),
    /// 30 consecutive ones at a symbol boundary: the EOS symbol; `at_end` when only one-bits
    /// follow it up to the end of the payload, `trailing_bits` how many bits follow it
    Eos { at_end: bool, trailing_bits: usize },
    /// trailing bits that are not all ones (an incomplete code that is not an EOS prefix)
    BadPadding,
}

pub fn classify(payload: &[u8]) -> Validity {
    use std::collections::HashMap;
    static MAP: std::sync::OnceLock<HashMap<(u32, u32), u8>> = std::sync::OnceLock::new();
    let map = MAP.get_or_init(|| {
        code_table()
            .iter()
            .enumerate()
            .map(|(s, c)| (*c, s as u8))
            .collect()
    });
    let nbits = payload.len() * 8;
    let bit = |i: usize| (payload[i / 8] >> (7 - i % 8)) & 1;
    let mut out = Vec::new();
    let mut pos = 0usize;
    loop {
        // try to read one symbol from pos
        let mut code = 0u32;
        let mut len = 0u32;
        let mut found = None;
        while pos + (len as usize) < nbits && len < 30 {
            code = (code << 1) | bit(pos + len as usize) as u32;
            len += 1;
            if let Some(s) = map.get(&(code, len)) {
                found = Some(*s);
                break;
            }
        }
        match found {
            Some(s) => {
                out.push(s);
                pos += len as usize;
            }
            None => {
                let rest = nbits - pos;
                let all_ones = (pos..nbits).all(|i| bit(i) == 1);
                return if len == 30 && code == 0x3fff_ffff {
                    Validity::Eos { at_end: all_ones, trailing_bits: rest - 30 }
                } else if !all_ones {
                    Validity::BadPadding
                } else if rest <= 7 {
                    Validity::Valid(out)
                } else {
                    Validity::OverlongPadding(rest)
                };
            }
        }
    }
}
