//! Independent reference implementations written from the RFCs (RFC 9000 §16, RFC 9114,
//! RFC 9204, RFC 7541 §5, RFC 9297). They share no code with h3. Huffman coding is
//! delegated to Cloudflare's `octets` crate.

pub mod frames;
pub mod huffman;
pub mod qpack;
pub mod qpack_dyn;
pub mod static_table;
pub mod varint;
pub mod wire;
