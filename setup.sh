#!/bin/sh
# Build the monitor harness offline from files on disk (path deps on /repo, crates from the local registry cache).
set -e
cd "$(dirname "$0")"
export CARGO_NET_OFFLINE=true
[ -f harness/Cargo.lock ] || cp /repo/Cargo.lock harness/Cargo.lock
./check build
