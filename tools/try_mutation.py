#!/usr/bin/env python3
"""Apply a patch to /repo, run the quick checks against it, restore /repo.

  tools/try_mutation.py <patch.diff> [Cxx ...]      (default: all checks in MANIFEST.json)

Prints one line per check: property, exit code, violation signatures. Evidence and replays of
these runs go to a scratch directory, never to /verif/evidence.
"""
import json, os, subprocess, sys, tempfile, shutil

ROOT = os.path.dirname(os.path.dirname(os.path.abspath(__file__)))

def main():
    patch = os.path.abspath(sys.argv[1])
    props = [p.upper() for p in sys.argv[2:]]
    if not props:
        props = [c["property_id"] for c in json.load(open(os.path.join(ROOT, "MANIFEST.json")))["checks"]]
    st = subprocess.run(["git", "-C", "/repo", "status", "--porcelain"], capture_output=True, text=True).stdout.strip()
    if st:
        print("refusing: /repo is not clean:\n" + st)
        return 2
    r = subprocess.run(["git", "-C", "/repo", "apply", patch])
    if r.returncode != 0:
        print("patch does not apply")
        return 2
    scratch = tempfile.mkdtemp(prefix="trymut_")
    env = dict(os.environ, VERIF_EVIDENCE_DIR=os.path.join(scratch, "ev"), VERIF_REPLAY_DIR=os.path.join(scratch, "rp"))
    fired = []
    results = {}
    try:
        for p in props:
            r = subprocess.run([os.path.join(ROOT, "check"), p, "quick"], cwd=ROOT, env=env, capture_output=True, text=True)
            sigs = [l.strip().replace("signature: ", "") for l in r.stdout.splitlines() if l.strip().startswith("signature:")]
            inc = [l for l in r.stdout.splitlines() if l.startswith("INCONCLUSIVE")]
            print(f"{p} rc={r.returncode} {sigs[:4]} {inc[:1] if inc else ''}")
            results[p] = {"exit": r.returncode, "signatures": sigs[:6], "note": (inc[0] if inc else "")}
            if r.returncode == 1:
                fired.append((p, sigs))
    finally:
        subprocess.run(["git", "-C", "/repo", "checkout", "--", "."])
        subprocess.run(["git", "-C", "/repo", "clean", "-fdq", "--", "h3", "h3-quinn", "h3-datagram", "h3-webtransport"])
        shutil.rmtree(scratch, ignore_errors=True)
    print("FIRED:", json.dumps(fired))
    print("RESULT_JSON:", json.dumps(results))
    return 0

if __name__ == "__main__":
    sys.exit(main())
