#!/bin/bash
# Confirm a seeded mutation independently in a scratch worktree:
#   1. patch only            -> whole suite must pass
#   2. patch + demonstration -> the demonstration must fail
#   3. demonstration only    -> whole suite (incl. demonstration) must pass
# usage: confirm_mutation.sh <dir with patch.diff demo.diff> <scratch name>
set -u
D="$1"; N="$2"; W=/tmp/confirm_$N; L="$D/confirm.log"
: > "$L"
git -C /repo worktree add -q --detach "$W" HEAD 2>>"$L" || { echo "worktree failed" >>"$L"; exit 2; }
cp /repo/Cargo.lock "$W/"
cd "$W"
run_suite() { cargo test --workspace --offline --no-fail-fast 2>&1 | grep -E '^test result|^test .* FAILED|^error' ; }
summ() { awk '/^test result/ {p+=$4; f+=$6} END {print p" passed, "f" failed"}'; }
echo "== 1. patch only" >>"$L"
git apply "$D/patch.diff" 2>>"$L" || { echo "RESULT patch-does-not-apply" >>"$L"; cd /; git -C /repo worktree remove --force "$W"; exit 1; }
R1=$(run_suite); echo "$R1" | grep -E 'FAILED|^error' >>"$L"; S1=$(echo "$R1" | summ); echo "suite with patch: $S1" >>"$L"
F1=$(echo "$R1" | grep -c 'FAILED')
if [ "$F1" != "0" ]; then
  # timing-sensitive tests: retry once
  R1=$(run_suite); echo "$R1" | grep -E 'FAILED|^error' >>"$L"; S1=$(echo "$R1" | summ); echo "suite with patch (retry): $S1" >>"$L"; F1=$(echo "$R1" | grep -c 'FAILED')
fi
echo "== 2. patch + demo" >>"$L"
if git apply "$D/demo.diff" 2>>"$L"; then :; else echo "demo.diff does not apply with git apply" >>"$L"; fi
R2=$(run_suite); echo "$R2" | grep -E 'FAILED|^error' >>"$L"; S2=$(echo "$R2" | summ); echo "suite with patch+demo: $S2" >>"$L"
F2=$(echo "$R2" | grep -c 'FAILED')
echo "== 3. demo only" >>"$L"
git apply -R "$D/patch.diff" 2>>"$L"
R3=$(run_suite); echo "$R3" | grep -E 'FAILED|^error' >>"$L"; S3=$(echo "$R3" | summ); echo "suite with demo only: $S3" >>"$L"
F3=$(echo "$R3" | grep -c 'FAILED')
if [ "$F3" != "0" ]; then R3=$(run_suite); S3=$(echo "$R3" | summ); echo "suite with demo only (retry): $S3" >>"$L"; F3=$(echo "$R3" | grep -c 'FAILED'); fi
if [ "$F1" = "0" ] && [ "$F2" != "0" ] && [ "$F3" = "0" ]; then echo "RESULT confirmed (patch: $S1; patch+demo: $S2; demo only: $S3)" >>"$L"; else echo "RESULT NOT-CONFIRMED (patch: $S1 [$F1 failed]; patch+demo: $S2 [$F2 failed]; demo only: $S3 [$F3 failed])" >>"$L"; fi
cd /; git -C /repo worktree remove --force "$W" >/dev/null 2>&1; rm -rf "$W"
