#!/bin/sh
# Screen a seeded change without touching /repo: copy /verif and a fresh worktree of /repo to a
# scratch directory, apply the patch there, point the harness copy at that worktree and run the
# quick checks. Used to run many screenings in parallel; the recorded result in seeded/<id>/meta.json
# comes from tools/try_mutation.py (which applies the patch to /repo itself).
#   tools/screen_mutation.sh <patch.diff> <name> [Cxx ...]
set -u
patch=$(realpath "$1"); name=$2; shift 2
S=/tmp/screen_$name
rm -rf "$S"; mkdir -p "$S"
git -C /repo worktree add --detach "$S/repo" HEAD >/dev/null 2>&1 || { echo "worktree failed"; exit 2; }
cleanup() { git -C /repo worktree remove --force "$S/repo" >/dev/null 2>&1; rm -rf "$S"; }
trap cleanup EXIT
cp /repo/Cargo.lock "$S/repo/" 2>/dev/null
git -C "$S/repo" apply "$patch" || { echo "patch does not apply"; exit 2; }
rsync -a --exclude 'target*' --exclude replays --exclude evidence --exclude .git --exclude fuzz/target --exclude fuzz/corpus /verif/ "$S/verif/"
cp -r /verif/harness/target "$S/verif/harness/target" 2>/dev/null
sed -i "s#\"/repo/#\"$S/repo/#g" "$S/verif/harness/Cargo.toml"
cd "$S/verif"
[ $# -eq 0 ] && set -- $(jq -r '.checks[].property_id' MANIFEST.json)
fired=""
for p in "$@"; do
  out=$(VERIF_THREADS=${VERIF_THREADS:-8} ./check "$p" quick 2>&1); rc=$?
  sigs=$(printf '%s\n' "$out" | grep -E '^\s*signature:' | head -4 | sed 's/^\s*signature: //' | tr '\n' ';')
  inc=$(printf '%s\n' "$out" | grep -E '^INCONCLUSIVE' | head -1)
  echo "$p rc=$rc $sigs $inc"
  [ $rc -eq 1 ] && fired="$fired $p"
done
echo "FIRED[$name]:$fired"
