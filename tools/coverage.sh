#!/bin/bash
# Which lines of hyperium/h3 do the monitors actually execute?  (a reach report, not a check)
#
#   tools/coverage.sh [tier] [max seconds per property] [Cxx ...]      default: quick 120, all properties
#
# Builds the harness with -Cinstrument-coverage (nightly toolchain, whose llvm-cov / llvm-profdata
# match the profile format) into a scratch target directory outside /repo and /verif, runs every
# property's monitors once, merges the profiles and prints per file of /repo the lines no monitor
# reached; the summary goes to coverage/summary.txt and the uncovered lines to coverage/uncovered.txt
# (both git-ignored scratch output). The scratch directory is removed at the end.
set -u
TIER=${1:-quick}; CAP=${2:-120}; shift 2 2>/dev/null
ROOT=$(cd "$(dirname "$0")/.." && pwd)
S=$(mktemp -d /tmp/vcov.XXXXXX)
trap 'rm -rf "$S"' EXIT
B=$(dirname "$(rustup +nightly which rustc)")/../lib/rustlib/x86_64-unknown-linux-gnu/bin
[ -x "$B/llvm-cov" ] || { echo "llvm-cov not found in the nightly toolchain"; exit 2; }
cd "$ROOT/harness"
[ -f Cargo.lock ] || cp /repo/Cargo.lock Cargo.lock
# build scripts and proc macros of the instrumented build write their own profiles to the cwd: send them to scratch
LLVM_PROFILE_FILE="$S/build-%p.profraw" CARGO_NET_OFFLINE=true RUSTFLAGS="--cfg h3_verif -Cinstrument-coverage" CARGO_TARGET_DIR="$S/target" \
  cargo +nightly build --release --offline --quiet || { echo "instrumented build failed"; exit 2; }
[ $# -eq 0 ] && set -- $(jq -r '.checks[].property_id' "$ROOT/MANIFEST.json")
cd "$ROOT"
for p in "$@"; do
  LLVM_PROFILE_FILE="$S/$p-%p.profraw" RUST_BACKTRACE=0 timeout $((CAP * 4)) "$S/target/release/vcheck" run "$p" --tier "$TIER" --seed "${VERIF_SEED:-1}" \
    --known "$ROOT/known_findings.json" --max-secs "$CAP" --evidence "$S/ev_$p.json" 2>&1 | tail -1
done
rm -f "$S"/build-*.profraw
"$B/llvm-profdata" merge -sparse "$S"/C*.profraw -o "$S/all.profdata" || exit 2
mkdir -p "$ROOT/coverage"
"$B/llvm-cov" report "$S/target/release/vcheck" -instr-profile="$S/all.profdata" --ignore-filename-regex='(\.cargo|rustc|/verif/|/tests?/|tests\.rs|/rustlib/)' 2>/dev/null \
  | awk 'NR>2 && NF>=10 {printf "%-52s functions %4d (missed %3d)  lines %5d (missed %4d) %s\n", $1, $5, $6, $8, $9, $10}' | tee "$ROOT/coverage/summary.txt"
: > "$ROOT/coverage/uncovered.txt"
for f in $(cd /repo && git ls-files 'h3/src/*.rs' 'h3/src/**/*.rs' 'h3-quinn/src/*.rs' 'h3-datagram/src/*.rs' 'h3-webtransport/src/*.rs' | grep -v '/tests' ); do
  "$B/llvm-cov" show "$S/target/release/vcheck" -instr-profile="$S/all.profdata" "/repo/$f" --show-line-counts-or-regions=false 2>/dev/null \
    | grep -E '^\s+[0-9]+\|\s+0\|' | sed "s#^#$f:#" >> "$ROOT/coverage/uncovered.txt"
done
echo "uncovered lines listed in $ROOT/coverage/uncovered.txt ($(wc -l < "$ROOT/coverage/uncovered.txt") lines)"
