#!/usr/bin/env python3
"""Record a confirmed seeded change under /verif/seeded/<id>/ and run checks against it.

  tools/record_seeded.py <id> [--from DIR] [Cxx ...]

<id> is a key of seeded/catalog.json. With --from, patch.diff / demo.diff / README.md / confirm.log
are first copied from DIR (the sub-agent's output directory). The patch is then applied to /repo
(git -C /repo apply), the listed quick checks (default: the property it breaks) are run with
scratch evidence directories, and /repo is restored (git -C /repo checkout -- .) straight
afterwards - all through tools/try_mutation.py. The outcome goes to seeded/<id>/meta.json.
"""
import json, os, re, shutil, subprocess, sys, time

ROOT = os.path.dirname(os.path.dirname(os.path.abspath(__file__)))

def main():
    args = sys.argv[1:]
    mid = args.pop(0)
    src = None
    if args and args[0] == "--from":
        args.pop(0)
        src = args.pop(0)
    cat = json.load(open(os.path.join(ROOT, "seeded", "catalog.json")))
    ent = cat[mid]
    d = os.path.join(ROOT, "seeded", mid)
    os.makedirs(d, exist_ok=True)
    if src:
        for f in ("patch.diff", "demo.diff", "README.md", "confirm.log"):
            p = os.path.join(src, f)
            if os.path.exists(p):
                shutil.copy(p, os.path.join(d, "AGENT_README.md" if f == "README.md" else f))
    props = [a.upper() for a in args] or [ent["property"]]
    if ent["property"] not in props:
        props.insert(0, ent["property"])
    confirm = ""
    cl = os.path.join(d, "confirm.log")
    if os.path.exists(cl):
        lines = [l.strip() for l in open(cl) if l.startswith("RESULT")]
        confirm = lines[-1] if lines else ""
    head = subprocess.run(["git", "-C", "/repo", "rev-parse", "--short", "HEAD"], capture_output=True, text=True).stdout.strip()
    vhead = subprocess.run(["git", "-C", ROOT, "rev-parse", "--short", "HEAD"], capture_output=True, text=True).stdout.strip()
    t0 = time.time()
    r = subprocess.run([os.path.join(ROOT, "tools", "try_mutation.py"), os.path.join(d, "patch.diff")] + props,
                       capture_output=True, text=True, cwd=ROOT)
    results = {}
    for line in r.stdout.splitlines():
        if line.startswith("RESULT_JSON:"):
            results = json.loads(line[len("RESULT_JSON:"):])
    caught = [p for p, v in results.items() if v["exit"] == 1]
    clean = subprocess.run(["git", "-C", "/repo", "status", "--porcelain"], capture_output=True, text=True).stdout.strip() == ""
    meta_path = os.path.join(d, "meta.json")
    old = json.load(open(meta_path)) if os.path.exists(meta_path) else {}
    meta = {
        "id": mid,
        "property_broken": ent["property"],
        "clause_broken": ent["breaks"],
        "needs_to_manifest": ent["needs"],
        "same_change_found_independently": ent.get("also", []),
        "origin": "fresh sub-agent given only the text of the property and its own scratch worktree of /repo (nothing from /verif)",
        "confirmation": confirm or old.get("confirmation", ""),
        "confirmation_procedure": "tools/confirm_mutation.sh in a scratch worktree: (1) patch only -> the whole existing suite passes, (2) patch + demo.diff -> the demonstration fails, (3) demo.diff only -> everything passes",
        "what_was_run": {
            "procedure": "git -C /repo apply seeded/%s/patch.diff; ./check <Cxx> quick for each listed property (VERIF_SEED=1, scratch evidence/replay directories); git -C /repo checkout -- . straight afterwards (tools/try_mutation.py)" % mid,
            "repo_head": head,
            "verif_head": vhead,
            "checks": results,
            "wall_s": round(time.time() - t0, 1),
            "repo_clean_afterwards": clean,
        },
        "caught_by": caught,
        "missed_by_own_property_check": ent["property"] not in caught,
    }
    for k in ("screened_all_checks", "history"):
        if k in old:
            meta[k] = old[k]
    if "history" in ent:
        meta["history"] = ent["history"]
    json.dump(meta, open(meta_path, "w"), indent=1)
    print(mid, "caught by", caught, "| own property:", "CAUGHT" if ent["property"] in caught else "MISSED", "| repo clean:", clean)
    return 0

if __name__ == "__main__":
    sys.exit(main())
