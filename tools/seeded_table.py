#!/usr/bin/env python3
"""Print the markdown table of DESIGN.md 9.6 from seeded/*/meta.json (and catalog.json for
entries not yet recorded)."""
import json, os, glob
ROOT = os.path.dirname(os.path.dirname(os.path.abspath(__file__)))
cat = json.load(open(os.path.join(ROOT, "seeded", "catalog.json")))
rows = []
for mid in sorted(cat):
    ent = cat[mid]
    mp = os.path.join(ROOT, "seeded", mid, "meta.json")
    if os.path.exists(mp):
        m = json.load(open(mp))
        caught = ", ".join(m["caught_by"]) or "—"
        own = "yes" if not m["missed_by_own_property_check"] else "**no**"
        conf = "yes" if "confirmed" in m.get("confirmation", "") and "NOT" not in m.get("confirmation", "") else "?"
    else:
        caught, own, conf = "(not recorded)", "?", "?"
    h = ent.get("history", "")
    if not h:
        first = "own check reported it"
    elif "NOT reported" in h:
        first = "reported by no check (known gap)"
    elif "missed by every check" in h or "INCONCLUSIVE" in h:
        first = "no check (or only inconclusive) at first; closed"
    elif "missed by C" in h or "but not by" in h or "(before C" in h:
        first = "own check missed it at first; closed"
    else:
        first = "neighbouring check only (by design)"
    rows.append((mid, ent["breaks"].split(":")[0][:110], ent["needs"][:110], conf, caught, own, first))
print("| id | clause broken | needs | confirmed | quick checks that report it (applied to /repo) | own check | first screening |")
print("|---|---|---|---|---|---|---|")
for r in rows:
    print("| " + " | ".join(c.replace("|", "/") for c in r) + " |")
