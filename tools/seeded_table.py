#!/usr/bin/env python3
"""Print the markdown table of DESIGN.md 9.6 from seeded/*/meta.json (and catalog.json for
entries not yet recorded)."""
import json, os, glob
ROOT = os.path.dirname(os.path.dirname(os.path.abspath(__file__)))
cat = json.load(open(os.path.join(ROOT, "seeded", "catalog.json")))
rows = []
for mid in sorted(cat):
    ent = cat[mid]
    mp = os.path.join(ROOT, "seeded", mid, "meta.json")
    if os.path.exists(mp):
        m = json.load(open(mp))
        caught = ", ".join(m["caught_by"]) or "—"
        own = "yes" if not m["missed_by_own_property_check"] else "**no**"
        conf = "yes" if "confirmed" in m.get("confirmation", "") and "NOT" not in m.get("confirmation", "") else "?"
    else:
        caught, own, conf = "(not recorded)", "?", "?"
    first = "missed / inconclusive at first" if "history" in ent else "caught at first screening"
    rows.append((mid, ent["breaks"].split(":")[0][:110], ent["needs"][:110], conf, caught, own, first))
print("| id | clause broken | needs | confirmed | quick checks that report it (applied to /repo) | own check | first screening |")
print("|---|---|---|---|---|---|---|")
for r in rows:
    print("| " + " | ".join(r) + " |")
