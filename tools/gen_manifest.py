#!/usr/bin/env python3
"""Generates /verif/MANIFEST.json from the table below (single source of truth)."""
import json, os, sys

ROOT = os.path.dirname(os.path.dirname(os.path.abspath(__file__)))

BASELINE_OFF = ("cd /repo && cargo nextest run --workspace --no-fail-fast --test-threads 8 --offline "
                "|| cargo test --workspace --no-fail-fast --offline")

# property id -> (engine, technique, level text, level note, design ref)
CHECKS = {
    "C16": ("codec", "differential runtime monitor vs reference varint codec + octets; complete enumeration of 1-/2-byte encodings and values < 2^16; stream-id arithmetic oracle; h3's decoder runs under a panic catcher (a panic is a violation wherever it is raised)",
            "Every decode/encode/constructor/stream-id operation executed is compared with an independent RFC 9000 implementation (and octets); the small domains named by the property's quantifier are enumerated completely, the rest sampled. Held-on-observed, not proved.",
            "Trusts refimpl/varint.rs and octets 0.3.7 (cross-checked against each other on every case); 64-bit usize.",
            "DESIGN.md §4 C16"),
}

CHECKS.update({
    "C15": ("codec", "differential runtime monitor (via cfg-guarded re-export) vs octets' strict RFC 7541 Huffman decoder and a 128-bit prefixed-integer reference; complete enumeration of short strings / Huffman payloads, padding and EOS mutations (EOS inside, closing the string, followed by whole bytes of ones)",
            "Every string/integer encode and decode executed is compared with independent implementations; accept/reject and output must agree. Short domains are enumerated completely (strings <= 2 B, H=1 payloads <= 2 B quick / <= 3 B thorough), the rest generated; every integer is also decoded from a buffer cut in two at every position, every string at a random one. Held-on-observed.",
            "Trusts octets 0.3.7 Huffman tables and refimpl/qpack.rs integer codec; implementation limits above 2^62 / >= 10 continuation bytes are don't-care; two known findings (overlong padding, EOS at end) are listed in known_findings.json.",
            "DESIGN.md §4 C15"),
    "C18": ("codec", "differential runtime monitor: Datagram encode drained under PRNG-chosen Buf consumption patterns (chunk/advance, copy_to_slice, copy_to_bytes whole and in parts, vectored, mixed) vs ref_varint(S/4)||P; decode vs reference incl. range/truncation errors; complete enumeration k < 2^16 and byte strings <= 2/3 B",
            "Every encoded datagram observed byte-for-byte under chunk/advance/copy patterns, every decode compared with the reference; complete over the small domains the quantifier names, sampled elsewhere. Held-on-observed.",
            "Trusts refimpl/varint.rs; only client-initiated bidirectional ids are passed to Datagram::new (its documented domain).",
            "DESIGN.md §4 C18"),
})

CHECKS.update({
    "C11": ("codec", "differential runtime monitor: h3 encode_stateless/decode_stateless vs an independent RFC 9204 decoder/encoder (three-valued MUST_ACCEPT/MUST_REJECT/DONT_CARE verdict); complete enumeration of 2-byte prefixes and short bodies, boundary-value grid for the section prefix integers (up to 2^64-1), grammar-directed mutations; thorough tier adds a libFuzzer+ASan stage (target qpack) and a Miri lite run",
            "Every section h3 emits is decoded by the reference and must give the input list; every byte string fed to h3's decoder is judged by the reference. Complete over all 65536 prefixes and bodies <= 2 B (quick) / <= 3 B (thorough); mutations and random strings sampled. Held-on-observed.",
            "Trusts refimpl/qpack.rs, its static table transcription (cross-checked against h3's by the run itself) and octets' Huffman decoder; RIC 0 with positive Base and >62-bit integers are don't-care; two known findings inherited from the Huffman decoder.",
            "DESIGN.md §4 C11"),
})

CHECKS.update({
    "C01": ("simquic+sched", "conservation/equality runtime monitor at the client<->server API boundary over a simulated QUIC transport with PRNG-driven chunking, back-pressure and task order; quiescence-based hang oracle; online RFC 9114 wire checker",
            "Real h3 client and server exchange generated well-formed messages over the simulated transport; every API result on the receiving side is compared with what the sender was given, every call must return and nothing may be pending at quiescence, every stream's bytes are parsed by the reference. Thousands of (message, chunking, schedule) combinations per run; held-on-observed.",
            "Trusts the simulator's transport contract (DESIGN.md §1) and the reference parser; inputs limited to what the http crate does not normalise.",
            "DESIGN.md §4 C01"),
    "C02": ("codec", "differential runtime monitor: h3::frame::FrameStream driven the documented way over a scripted RecvStream vs the reference segmenter, for ALL chunkings of short strings (complete enumeration of frame shapes x varint forms x truncations) and sampled chunkings of long ones; chunking-independence cross-check; thorough tier adds a libFuzzer+ASan stage (target frames) and a Miri lite run",
            "For every (byte string, ending, chunking) executed the event sequence (frames, DATA bytes, terminal status and error code) must equal the reference's and be the same for every chunking. Single frames with all varint forms and all pairs with minimal forms are enumerated completely, strings up to 9 B (quick) / 12 B (thorough) are cut in all 2^(n-1) ways. Held-on-observed.",
            "Trusts refimpl/frames.rs; error codes are taken from h3's own mapping functions; documented don't-care zones (overlapping rules, early detection) accept several codes.",
            "DESIGN.md §4 C02"),
})

CHECKS.update({
    "C03": ("simquic+sched", "reference-automaton runtime monitor: a raw scripted peer plays every frame sequence up to length N x ending x side against the real endpoint over the simulated transport; API transcript and QUIC close code compared with the RFC 9114 §4.1 automaton",
            "All sequences up to length 4 (quick) / 5 (thorough) over the 11-token alphabet x {FIN, RESET, open} x {server, client} are played (several schedules each for sequences that are not refused at once) plus sampled longer ones; the transcript of API outcomes and the close code must match the reference automaton. Held-on-observed.",
            "Trusts the automaton in props/c03.rs and the simulator; PUSH_PROMISE / FIN-before-HEADERS on the client side are don't-care; RESET may overtake data.",
            "DESIGN.md §4 C03"),
})

CHECKS.update({
    "C10": ("simquic+sched", "size-oracle runtime monitor: a raw peer sends/advertises exact RFC 9114 §4.2.2 sizes (reference encoder) around every limit; accept/refuse decisions, 431 behaviour and the sizes of HEADERS frames h3 writes (reference decoder) are compared with the oracle",
            "The grid limits x (L-2..L+2) x field counts x {request, response, trailers} x {receive, send} x roles x {SETTINGS applied, applied without naming a limit, never delivered, arriving between stream creation and the send} x {whole, split stream} is run plus random sizes; a third of the sections carry a value that Huffman coding lengthens (encoded block longer than the RFC size and than the limit while the section is within it); a SendRequest handle (or a clone made before / after) is used for requests before the peer's SETTINGS arrive and for the request under test afterwards; every decision must equal s <= L and no oversized HEADERS may reach the wire. Held-on-observed.",
            "Trusts refimpl/qpack.rs for sizes; SETTINGS timing made deterministic by two phases; sizes above ~70 KB not constructed.",
            "DESIGN.md §4 C10"),
    "C12": ("simquic+sched", "three-valued reference-predicate runtime monitor (MUST_REJECT / MUST_ACCEPT / DONT_CARE) over generated field lists, checked against h3's header validation directly and end to end through a raw peer; wire-order monitor for sent HEADERS",
            "10^5 (quick) field lists with single and combined defects (bad value bytes at either edge, in the middle or alone) go through Header::try_from/into_*_parts, thousands more are injected end to end (outcome must be StreamError H3_MESSAGE_ERROR without connection error, or delivery with equal content), and the HEADERS frames of generated messages - including every form of request target the http crate can express (asterisk-form, origin-form with Host, absolute with and without path or query) - are decoded by the reference to check pseudo-field order/uniqueness/values. Held-on-observed.",
            "Trusts the predicate in props/c12.rs (RFC latitude is DONT_CARE) and the reference QPACK codec; a :scheme h3 fills in for a target that names none is not judged.",
            "DESIGN.md §4 C12"),
    "C13": ("simquic+sched", "complete enumeration of builder configurations against a raw peer with reference parsing of the emitted SETTINGS; reference SETTINGS model vs applied values observed through public getters / HeaderTooBig for received payloads (permutations, duplicates, reserved ids, varint forms, truncations)",
            "All 2024 builder configurations are built, the server ones with the builder methods called as listed and in two shuffled orders (no panic, one well-formed SETTINGS frame, exact values, grease iff on); thousands of received payloads (up to 55 entries, hundreds of bytes, delivered in pieces) are judged by the reference model and the applied values read back; defaults checked before SETTINGS arrive. Held-on-observed; the configuration space is covered completely.",
            "Trusts refimpl/frames.rs::judge_settings; boolean settings > 1 and repeated unknown ids are don't-care; max_webtransport_sessions not observable on receive.",
            "DESIGN.md §4 C13"),
    "C14": ("simquic+sched", "online RFC 9114 reference checker over every byte stream written by real h3 endpoints running generated API programs under PRNG write-acceptance patterns; DATA frames matched against the buffers handed to send_data (Bytes and segmented Buf)",
            "Thousands of API programs (finish/drop/reset endings, split halves, shutdown(n), configurations, 1-byte write acceptance) per run; every stream h3 wrote is parsed by the reference (incl. GOAWAY identifiers that never increase and are request stream ids) and every DATA frame compared with its send_data buffer. Held-on-observed.",
            "Trusts refimpl/wire.rs; streams abandoned mid-frame are not judged for completeness; implicit FIN on drop (Quinn behaviour) is not a finish.",
            "DESIGN.md §4 C14"),
})

CHECKS.update({
    "C04": ("simquic+sched", "reference control/uni-stream automaton + effect-history runtime monitor: a raw peer plays unidirectional stream scripts (types, varint forms, control frame sequences, FIN/RESET points) against the real endpoint under stream-credit shortage, back-pressure, a stalled grease stream and a peer that sends STOP_SENDING on the streams h3 itself opened (control, QPACK, grease - the latter being what RFC 9114 6.2.3 tells a peer to do); close code, driver result and GOAWAY effects compared",
            "All control frame sequences up to length 3 x endings (open, FIN, RESET, FIN inside a frame) x roles (servers also with a request in progress, which forbids stopping at GOAWAY) are played completely, plus sampled multi-stream scripts, GOAWAY effect traces and credit/back-pressure modes; the observed connection error must be one some processing order can raise first (or none), and GOAWAY effects must appear exactly when sent. Held-on-observed.",
            "Trusts the automaton in props/c04.rs; overlapping rules accept any applicable code; push streams, CANCEL_PUSH to a client and QPACK stream closure are don't-care; a server whose accept() returned None legitimately stops processing; when the peer stops h3's control or QPACK stream, H3_CLOSED_CRITICAL_STREAM is accepted (never required); stopping the grease stream must change nothing.",
            "DESIGN.md §4 C04"),
})

CHECKS.update({
    "C06": ("simquic+sched", "panic catcher around every poll + quiescence-based hang oracle over adversarial peer scripts (bytecode shared with the fuzz target): faults injected at every step index of every scenario skeleton, grammar- and byte-level mutations, random scripts, validly encoded but field-level hostile sections, STOP_SENDING on the streams h3 itself opened, the connection closed / timed out / without stream credit before build() is first polled, the idle timeout at a PRNG-chosen moment; both roles, whole and split streams; spin detector (busy loop inside one poll), step cap as bounded-progress verdict; thorough tier adds a libFuzzer+ASan stage (target peer_script) and Miri/ASan lite runs",
            "Tens of thousands of hostile scripts per run; every poll of every h3 future runs under catch_unwind with overflow checks and debug assertions on; at quiescence no call may wait on a stream the peer already finished/reset/stopped, and after the peer's connection close no h3 future may be pending. FIN/RESET/STOP_SENDING/close are injected at every step index of all 192 skeletons (complete). Held-on-observed.",
            "Trusts the simulator's quiescence detection and the applications of sim/apps.rs as 'documented call pattern'.",
            "DESIGN.md §4 C06"),
})

CHECKS.update({
    "C07": ("simquic+sched", "fault-confinement runtime monitor: 2..4 concurrent requests with a faulty subset (RESET at offset classes, STOP_SENDING, malformed message, oversized section, FIN before HEADERS) against raw peers and between real endpoints; per-stream error class/code oracle, wire-signal oracle (which RESET_STREAM / STOP_SENDING code the peer sees) + C01 equality oracle on every healthy neighbour + no-close / driver-alive checks; applications with think time",
            "Thousands of connections per run over three set-ups with PRNG schedules; every failing call on a faulty stream must be the stream-level class with the peer's code, no connection error or close may occur, and every healthy neighbour must deliver exactly its own message and complete. Held-on-observed.",
            "Trusts the reference codec and simulator; a client seeing FIN before HEADERS is don't-care; RESET may overtake data.",
            "DESIGN.md §4 C07"),
    "C20": ("codec", "history checker with an executable RFC 9204 reference model (dynamic table, encoder/decoder instruction parsers, section resolver): generated histories of sections, sliced/late encoder-stream delivery, delayed/withheld acknowledgements and cancellations, through the cfg-guarded stateful Encoder/Decoder",
            "20 000 (quick) / 2 000 000 (thorough) histories over capacities on and off the 32-octet grid; after every step: h3's decoder returns the input list once its dependencies arrived and only 'blocked' before, the independent reference decoder agrees on the same bytes, table sizes stay within capacity on both sides, and no entry referenced by an unacknowledged section is evicted. Held-on-observed.",
            "Trusts refimpl/qpack_dyn.rs (self-checked against RFC 9204 Appendix B vectors); capacity configured out of band on both sides; RFC 9204 §2.1.1/§2.1.2 breaches are recorded, not judged, unless a statement-level symptom follows; one known finding (eviction after stream cancel).",
            "DESIGN.md §4 C20"),
})

CHECKS.update({
    "C08": ("simquic+sched", "GOAWAY history checker: GOAWAY frames (ids + write times) read off the server's control stream by the reference parser vs, per request stream, pull time / shown / reset+stop_sending codes; shutdown(n) issued at schedule-chosen moments between out-of-order arrivals; client side: GOAWAY id sequences vs RemoteClosing / H3_ID_ERROR and no stream opened",
            "Thousands of server histories (in-order, out-of-order, gapped and large ids, repeated shutdown(n)) and client GOAWAY sequences per run; ids must be non-increasing request ids, nothing shown may be >= any id sent, streams pulled after GOAWAY(g) are rejected with 0x10b iff >= g. Held-on-observed.",
            "Trusts the reference parser and the simulator's event times; streams the application never pulled carry no obligation.",
            "DESIGN.md §4 C08"),
    "C09": ("simquic+sched", "handle-liveness history checker with quiescence-based bounded-progress oracle: endings alphabet^k x GOAWAY position enumerated, the harness owns and logs every handle drop; accept() returning None is checked against live handles, accept() pending at quiescence against 'GOAWAY delivered and all handles gone'",
            "All histories of <= 2 (quick) / <= 3 (thorough) requests over the 8 endings x every GOAWAY position are run (3 schedules each) plus sampled longer ones, with both accept APIs, shuffled release order, the server's own shutdown, a repeated GOAWAY, peer unidirectional streams opened ahead of the control stream (silent, QPACK, type arriving later), handles kept after finish(), and worker-pool bursts of up to 71 requests in progress at once whose endings all fall between two polls of accept(). Safety and bounded progress are decided on the totally ordered event log and at executor quiescence, not on wall-clock. Held-on-observed.",
            "Trusts the simulator's quiescence detection; QPACK failures excluded (connection errors).",
            "DESIGN.md §4 C09"),
})

CHECKS.update({
    "C17": ("quinnrig", "byte-conservation / identifier / error-mapping runtime monitor over real Quinn loopback connections: the h3_quinn adapter is driven through the h3::quic traits against a raw quinn peer with flow-control windows swept from 1 byte to 1 MiB (arbitrary partial writes), premature second writes, an id-query state matrix incl. pending and abandoned reads, peer close/reset/stop/timeout with code sets, each cause also observed by opening streams of both kinds through the connection, the cloneable opener and a clone of it; unframed writes (poll_send) for conservation and error classes, and an unframed write behind a frame that send_data accepted but has not finished (refused, or strictly behind it - never inside); h3's BufRecvStream on top of the adapter (look-ahead poll_read, take_chunk, poll_data, futures/tokio AsyncRead, split) incl. over a UDP relay that loses or swaps datagrams; AddressSanitizer build in the thorough tier",
            "66 (quick) / ~3000 (thorough) real connections; the raw peer's received byte string must equal the reference-encoded frames of every accepted send_data exactly once and in order, premature writes must be refused, send_id/recv_id must equal Quinn's id in all 14 read/write states without panicking, and peer conditions must map to the right h3 error class with the code preserved. Wall-clock is a watchdog only (inconclusive). Held-on-observed.",
            "Real sockets: evaluation counts vary slightly between runs; scenarios hit by Quinn/loopback trouble are discarded (inconclusive above 2 %); trusts quinn 0.11's own ids and the reference frame encoder.",
            "DESIGN.md §4 C17"),
    "C19": ("simquic+sched", "session-id / wire-header / payload equality runtime monitor for WebTransport: a raw client establishes sessions on CONNECT streams with 1-, 2-, 4- and 8-byte ids, sends WebTransport streams with every cut position through the stream header and first payload bytes, and reads what the server opens; four read APIs (poll_data, futures AsyncRead, tokio AsyncRead, split + poll_data)",
            "Every cut of header+payload for short payloads is enumerated (complete) for all ids x {bidi, uni} x {poll_data, futures AsyncRead, tokio AsyncRead}; thousands of random sessions besides; session ids at the API and on the wire must equal the CONNECT stream id and payloads must arrive intact; disabled extension must surface nothing. Held-on-observed.",
            "Raw client's SETTINGS applied before the CONNECT (two phases); WebTransport streams released after the session exists.",
            "DESIGN.md §4 C19"),
})

CHECKS.update({
    "C05": ("racerig", "forced-schedule runtime monitor on real OS threads: cfg-guarded pre-emption hooks park the driver poll and 1..3 error-raising handle calls at individual shared-state operations and ALL orderings of the hook-delimited segments are executed (depth-first enumeration for full driver polls); plus free-running iterations; oracles: first-stored error wins, single effective close with the winner's code, every later call reports the winner, no lost wake-up; ThreadSanitizer and Miri many-seeds as add-ons",
            "Every ordering of the segments for k = 1, 2 (quick) and 3 (thorough) stream actors x 32 scenario shapes x 11 error kinds (7 detected by h3, 4 reported by the transport on one stream) is executed (complete at hook granularity), 2*10^4 / 10^6 free-running iterations besides; the controller totally orders the events and reads the error cell as ground truth. Held-on-observed at that granularity.",
            "Interleavings are explored at the granularity of the five hook points (the only cross-thread shared state is SharedState); one driver task = one waker; close reason text is recorded, not judged; a 20 s no-progress watchdog makes the run inconclusive, never a violation.",
            "DESIGN.md §4 C05"),
})

NOT_YET = {}

def main():
    props = [json.loads(l)["id"] for l in open(os.path.join(ROOT, "properties.jsonl"))]
    checks = []
    for pid in props:
        if pid not in CHECKS:
            continue
        engine, technique, text, note, ref = CHECKS[pid]
        checks.append({
            "property_id": pid,
            "quick_cmd": f"./check {pid} quick",
            "thorough_cmd": f"./check {pid} thorough",
            "evidence_file": f"/verif/evidence/{pid}.json",
            "replay_cmd_template": "./check replay {path}",
            "engine": engine,
            "level_claimed": {"category": "exploration", "text": text, "design_ref": ref},
            "level_note": note,
            "technique": technique,
        })
    na = []
    for pid in props:
        if pid not in CHECKS:
            na.append({"property_id": pid,
                       "reason": NOT_YET.get(pid, "monitor designed in DESIGN.md §4 but not built yet in this tree; not claimed until its check exists and is silent on the unchanged tree")})
    hooks_commits = []
    hc = os.path.join(ROOT, "hooks_commits.txt")
    if os.path.exists(hc):
        hooks_commits = [l.split()[0] for l in open(hc) if l.strip() and not l.startswith("#")]
    m = {
        "version": 1,
        "setup_cmd": "./setup.sh",
        "hooks": {
            "guard": "--cfg h3_verif",
            "enable": "RUSTFLAGS=\"--cfg h3_verif\" (set by ./check for every harness build; /repo crates are path dependencies of /verif/harness)",
            "baseline_off_cmd": BASELINE_OFF,
            "source_commits": hooks_commits,
            "add_only": True,
        },
        "engines": [
            {"name": "codec", "path": "harness/src/props", "serves_properties": ["C11", "C15", "C16", "C18", "C20"],
             "kind_free_text": "differential driver: h3's pure codec functions vs independent reference implementations (refimpl/) over enumerated + generated inputs"},
            {"name": "simquic+sched", "path": "harness/src/sim", "serves_properties": ["C01", "C02", "C03", "C04", "C06", "C07", "C08", "C09", "C10", "C12", "C13", "C14", "C19"],
             "kind_free_text": "simulated QUIC transport implementing h3::quic traits + deterministic single-threaded executor; PRNG-driven chunking, back-pressure, credit and task order; received data handed to h3 as one contiguous buffer or as a rope of non-contiguous segments; monitors at the API and wire boundary"},
            {"name": "racerig", "path": "harness/src/racerig", "serves_properties": ["C05"],
             "kind_free_text": "real OS threads parked at cfg-guarded pre-emption hooks; enumerates all segment orderings; free-running under TSan/Miri"},
            {"name": "quinnrig", "path": "harness/src/quinnrig", "serves_properties": ["C17"],
             "kind_free_text": "real Quinn loopback with tiny flow-control windows; byte-conservation and id/error monitors; optional ASan build"},
        ],
        "checks": checks,
        "not_applicable": na,
        "notes": "All checks are runtime monitors over executions of the real code (see DESIGN.md, section 9 for what was built). Exit 2 + INCONCLUSIVE line = build failure / wall-clock watchdog / coverage floor not reached (never folded into held or violated). Liveness is decided in logical units only (quiescence, transport calls per poll, scheduler step caps 20-100x the largest observed run). Known findings: known_findings.json (KNOWN-FINDING lines, exit 0). Seeded changes used to test the monitors: seeded/ (DESIGN.md 9.6).",
    }
    with open(os.path.join(ROOT, "MANIFEST.json"), "w") as f:
        json.dump(m, f, indent=1)
    print(f"MANIFEST.json: {len(checks)} checks, {len(na)} not_applicable")

if __name__ == "__main__":
    main()
