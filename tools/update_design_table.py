#!/usr/bin/env python3
"""Replace the generated table of DESIGN.md 9.6 with the current output of tools/seeded_table.py."""
import os, subprocess, sys
ROOT = os.path.dirname(os.path.dirname(os.path.abspath(__file__)))
p = os.path.join(ROOT, "DESIGN.md")
lines = open(p).read().split("\n")
start = next(i for i, l in enumerate(lines) if l.startswith("| id | clause broken |"))
end = start
while end < len(lines) and lines[end].startswith("|"):
    end += 1
table = subprocess.run([sys.executable, os.path.join(ROOT, "tools", "seeded_table.py")], capture_output=True, text=True, check=True).stdout.rstrip("\n").split("\n")
lines[start:end] = table
open(p, "w").write("\n".join(lines))
print("table rows:", len(table) - 2)
